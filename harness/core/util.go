package core

import (
	"crypto/sha256"
	"encoding/hex"
	"fmt"
	"regexp"
	"runtime"
	"runtime/debug"
	"strings"
	"sync"
	"sync/atomic"
	"time"
)

// Rng is a small deterministic PRNG (splitmix64 / xorshift) independent of math/rand versions.
type Rng struct{ s uint64 }

func NewRng(seed uint64) *Rng {
	r := &Rng{s: seed*0x9E3779B97F4A7C15 + 0x1234567}
	r.U64()
	return r
}

// Derive makes a child generator keyed by strings/ints
func Derive(seed int64, keys ...any) *Rng {
	h := uint64(seed)*0x9E3779B97F4A7C15 + 0xABCDEF
	for _, k := range keys {
		for _, c := range []byte(fmt.Sprint(k)) {
			h = (h ^ uint64(c)) * 0x100000001B3
		}
		h ^= h >> 29
		h *= 0xBF58476D1CE4E5B9
	}
	return NewRng(h)
}

func (r *Rng) U64() uint64 {
	r.s += 0x9E3779B97F4A7C15
	z := r.s
	z = (z ^ (z >> 30)) * 0xBF58476D1CE4E5B9
	z = (z ^ (z >> 27)) * 0x94D049BB133111EB
	return z ^ (z >> 31)
}

// Intn returns a value in [0,n)
func (r *Rng) Intn(n int) int {
	if n <= 1 {
		return 0
	}
	return int(r.U64() % uint64(n))
}

func (r *Rng) Byte() byte { return byte(r.U64() >> 24) }

func (r *Rng) Float() float64 { return float64(r.U64()>>11) / float64(1<<53) }

// Bool with probability p
func (r *Rng) Bool(p float64) bool { return r.Float() < p }

func (r *Rng) Fill(b []byte) {
	i := 0
	for ; i+8 <= len(b); i += 8 {
		v := r.U64()
		b[i], b[i+1], b[i+2], b[i+3], b[i+4], b[i+5], b[i+6], b[i+7] = byte(v), byte(v>>8), byte(v>>16), byte(v>>24), byte(v>>32), byte(v>>40), byte(v>>48), byte(v>>56)
	}
	for ; i < len(b); i++ {
		b[i] = r.Byte()
	}
}

// ParallelDo runs f(i) for i in [0,n) on `workers` goroutines
func ParallelDo(n, workers int, f func(i int)) {
	if workers <= 0 {
		workers = runtime.NumCPU()
	}
	if workers > n {
		workers = n
	}
	if workers <= 1 {
		for i := 0; i < n; i++ {
			f(i)
		}
		return
	}
	var wg sync.WaitGroup
	ch := make(chan int, workers)
	for w := 0; w < workers; w++ {
		wg.Add(1)
		go func() {
			defer wg.Done()
			for i := range ch {
				f(i)
			}
		}()
	}
	for i := 0; i < n; i++ {
		ch <- i
	}
	close(ch)
	wg.Wait()
}

var frameRe = regexp.MustCompile(`(?m)^(github\.com/flanglet/kanzi-go/v2/[^\s(]+(?:\([^)]*\))?[^\s(]*)\(`)

// PanicSite extracts from a debug.Stack() dump the innermost kanzi-go frame at/under the panic
// (function name only, no line numbers), skipping the verif hook files and deferred handlers
// that run on top of the panicking frames.
func PanicSite(stack []byte) string {
	lines := strings.Split(string(stack), "\n")
	// find last "panic(" / runtime.gopanic / runtime.goPanic / sigpanic line; frames after it are the faulting ones
	last := -1
	for i, l := range lines {
		if strings.HasPrefix(l, "panic(") || strings.HasPrefix(l, "runtime.gopanic") || strings.HasPrefix(l, "runtime.goPanic") || strings.HasPrefix(l, "runtime.panic") || strings.HasPrefix(l, "runtime.sigpanic") {
			last = i
		}
	}
	for i := last + 1; i < len(lines)-1; i++ {
		l := lines[i]
		if !strings.HasPrefix(l, "github.com/flanglet/kanzi-go/v2/") {
			continue
		}
		if strings.Contains(lines[i+1], "verif_on.go") {
			continue
		}
		fn := l
		if k := strings.LastIndex(fn, "("); k > 0 {
			fn = fn[:k]
		}
		fn = strings.TrimPrefix(fn, "github.com/flanglet/kanzi-go/v2/")
		// strip closure suffixes like .func1
		fn = regexp.MustCompile(`\.func\d+(\.\d+)*$`).ReplaceAllString(fn, "")
		return fn
	}
	return "unknown"
}

// Trunc shortens a string for reports
func Trunc(s string, n int) string {
	if len(s) <= n {
		return s
	}
	return s[:n] + "..."
}

// Stack returns the current goroutine's stack (used inside deferred recover handlers)
func Stack() []byte { return debug.Stack() }

// Guard runs f in its own goroutine and reports whether it returned within d. The timeout is a generous
// wall-clock watchdog (cases guarded this way normally take milliseconds); callers confirm a hang by a
// second, longer attempt before reporting it. A hung goroutine is leaked (it may keep spinning).
func Guard(d time.Duration, f func()) (returned bool) {
	done := make(chan struct{})
	go func() {
		defer close(done)
		f()
	}()
	select {
	case <-done:
		return true
	case <-time.After(d):
		return false
	}
}

var hangCount int32

// Hangs counts guarded calls that never returned (their goroutines are leaked and may burn CPU)
func Hangs() int { return int(atomic.LoadInt32(&hangCount)) }

// NoteHang records a leaked hung case
func NoteHang() { atomic.AddInt32(&hangCount, 1) }

// Sha256Hex returns the hex SHA-256 of b
func Sha256Hex(b []byte) string {
	h := sha256.Sum256(b)
	return hex.EncodeToString(h[:])
}
