package core

import (
	"bufio"
	"encoding/json"
	"fmt"
	"io"
	"os"
	"os/exec"
	"runtime/pprof"
	"sync"
	"syscall"
	"time"
)

// Child handlers run one JSON case and return a JSON-serialisable result.
var childHandlers = map[string]func(json.RawMessage) any{}

// RegisterChild registers a handler usable with RunIsolated
func RegisterChild(name string, h func(json.RawMessage) any) { childHandlers[name] = h }

// IsoResult is the outcome of one isolated case
type IsoResult struct {
	Idx    int
	Status string // ok | crash | cpu | timeout
	Out    json.RawMessage
	Detail string // stderr tail of the child on crash/cpu
	CPUms  int64
}

// IsoOpts controls RunIsolated
type IsoOpts struct {
	Workers    int
	CPUBudget  time.Duration // per case CPU time (user+sys of the child process); 0 = none
	WallBudget time.Duration // per case wall clock watchdog (inconclusive when it fires)
	Env        []string
}

func cpuNow() time.Duration {
	var ru syscall.Rusage
	syscall.Getrusage(syscall.RUSAGE_SELF, &ru)
	return time.Duration(ru.Utime.Nano() + ru.Stime.Nano())
}

// ChildMain is the entry of `vcheck child <handler>`: reads one JSON case per line on stdin,
// writes one JSON result per line on stdout. A CPU watchdog exits 97 after dumping goroutines.
func ChildMain(handler string) {
	h := childHandlers[handler]
	if h == nil {
		fmt.Fprintf(os.Stderr, "unknown child handler %s\n", handler)
		os.Exit(3)
	}
	var budget time.Duration
	if s := os.Getenv("VERIF_CPU_BUDGET_MS"); s != "" {
		var ms int64
		fmt.Sscan(s, &ms)
		budget = time.Duration(ms) * time.Millisecond
	}
	var mu sync.Mutex
	caseStart := time.Duration(-1)
	if budget > 0 {
		go func() {
			for {
				time.Sleep(50 * time.Millisecond)
				mu.Lock()
				cs := caseStart
				mu.Unlock()
				if cs >= 0 && cpuNow()-cs > budget {
					fmt.Fprintf(os.Stderr, "VERIF-CPU-BUDGET exceeded (%v); goroutine dump follows\n", budget)
					pprof.Lookup("goroutine").WriteTo(os.Stderr, 2)
					os.Exit(97)
				}
			}
		}()
	}
	in := bufio.NewReaderSize(os.Stdin, 1<<20)
	out := bufio.NewWriter(os.Stdout)
	for {
		line, err := in.ReadBytes('\n')
		if len(line) > 1 {
			mu.Lock()
			caseStart = cpuNow()
			mu.Unlock()
			c0 := cpuNow()
			res := h(json.RawMessage(line))
			mu.Lock()
			caseStart = -1
			mu.Unlock()
			b, merr := json.Marshal(map[string]any{"r": res, "cpu_ms": (cpuNow() - c0).Milliseconds()})
			if merr != nil {
				b, _ = json.Marshal(map[string]any{"r": map[string]any{"marshal_error": merr.Error()}})
			}
			out.Write(b)
			out.WriteByte('\n')
			out.Flush()
		}
		if err != nil {
			return
		}
	}
}

type child struct {
	cmd    *exec.Cmd
	stdin  io.WriteCloser
	stdout *bufio.Reader
	errf   *os.File
}

func startChild(handler string, o IsoOpts) (*child, error) {
	exe, err := os.Executable()
	if err != nil {
		return nil, err
	}
	cmd := exec.Command(exe, "child", handler)
	cmd.Env = append(os.Environ(), o.Env...)
	if o.CPUBudget > 0 {
		cmd.Env = append(cmd.Env, fmt.Sprintf("VERIF_CPU_BUDGET_MS=%d", o.CPUBudget.Milliseconds()))
	}
	cmd.Env = append(cmd.Env, "GOTRACEBACK=all")
	errf, err := os.CreateTemp("", "vchild-stderr-*")
	if err != nil {
		return nil, err
	}
	cmd.Stderr = errf
	stdin, _ := cmd.StdinPipe()
	stdout, _ := cmd.StdoutPipe()
	if err := cmd.Start(); err != nil {
		errf.Close()
		os.Remove(errf.Name())
		return nil, err
	}
	return &child{cmd: cmd, stdin: stdin, stdout: bufio.NewReaderSize(stdout, 1<<20), errf: errf}, nil
}

func (c *child) stderrTail(n int64) string {
	st, err := c.errf.Stat()
	if err != nil {
		return ""
	}
	off := st.Size() - n
	if off < 0 {
		off = 0
	}
	b := make([]byte, st.Size()-off)
	c.errf.ReadAt(b, off)
	return string(b)
}

// stderrHead returns the beginning of the child's stderr (the panic message and first stacks)
func (c *child) stderrHead(n int64) string {
	st, err := c.errf.Stat()
	if err != nil {
		return ""
	}
	if st.Size() < n {
		n = st.Size()
	}
	b := make([]byte, n)
	c.errf.ReadAt(b, 0)
	return string(b)
}

func (c *child) kill() {
	c.stdin.Close()
	c.cmd.Process.Kill()
	c.cmd.Wait()
	c.errf.Close()
	os.Remove(c.errf.Name())
}

// RunIsolated executes cases in child processes (one case at a time per child). A case that
// kills its child is reported with Status crash and the child's stderr; the child is restarted.
func RunIsolated(handler string, cases []any, o IsoOpts) []IsoResult {
	if o.Workers <= 0 {
		o.Workers = 8
	}
	if o.WallBudget == 0 {
		o.WallBudget = 10 * time.Minute
	}
	results := make([]IsoResult, len(cases))
	next := make(chan int, len(cases))
	for i := range cases {
		next <- i
	}
	close(next)
	var wg sync.WaitGroup
	for w := 0; w < o.Workers && w < len(cases); w++ {
		wg.Add(1)
		go func() {
			defer wg.Done()
			var ch *child
			defer func() {
				if ch != nil {
					ch.kill()
				}
			}()
			for i := range next {
				results[i].Idx = i
				if ch == nil {
					var err error
					if ch, err = startChild(handler, o); err != nil {
						results[i].Status = "timeout"
						results[i].Detail = "cannot start child: " + err.Error()
						ch = nil
						continue
					}
				}
				b, _ := json.Marshal(cases[i])
				b = append(b, '\n')
				type rd struct {
					line []byte
					err  error
				}
				done := make(chan rd, 1)
				go func(c *child) {
					if _, err := c.stdin.Write(b); err != nil {
						done <- rd{nil, err}
						return
					}
					l, err := c.stdout.ReadBytes('\n')
					done <- rd{l, err}
				}(ch)
				var r rd
				timedOut := false
				select {
				case r = <-done:
				case <-time.After(o.WallBudget):
					timedOut = true
					ch.cmd.Process.Signal(syscall.SIGQUIT)
					select {
					case r = <-done:
					case <-time.After(5 * time.Second):
						ch.cmd.Process.Kill()
						r = <-done
					}
				}
				if timedOut {
					results[i].Status = "timeout"
					ch.cmd.Wait()
					results[i].Detail = ch.stderrHead(6000)
					ch.errf.Close()
					os.Remove(ch.errf.Name())
					ch = nil
					continue
				}
				if r.err != nil || len(r.line) == 0 {
					// child died
					ch.stdin.Close()
					werr := ch.cmd.Wait()
					code := -1
					if ee, ok := werr.(*exec.ExitError); ok {
						code = ee.ExitCode()
					}
					if code == 97 {
						results[i].Status = "cpu"
					} else {
						results[i].Status = "crash"
					}
					results[i].Detail = fmt.Sprintf("exit=%d (%v)\n%s", code, werr, ch.stderrHead(8000))
					ch.errf.Close()
					os.Remove(ch.errf.Name())
					ch = nil
					continue
				}
				var env struct {
					R   json.RawMessage `json:"r"`
					CPU int64           `json:"cpu_ms"`
				}
				json.Unmarshal(r.line, &env)
				results[i].Status = "ok"
				results[i].Out = env.R
				results[i].CPUms = env.CPU
			}
		}()
	}
	wg.Wait()
	return results
}
