// Package core: evidence, known-findings and verdict plumbing shared by all checks.
package core

import (
	"encoding/json"
	"fmt"
	"os"
	"path/filepath"
	"sort"
	"strconv"
	"sync"
	"time"
)

// VerifRoot is the root of the verification tree (evidence, replay, known findings).
func VerifRoot() string {
	if v := os.Getenv("VERIF_ROOT"); v != "" {
		return v
	}
	return "/verif"
}

// Finding is one entry of known_findings.json
type Finding struct {
	Property  string `json:"property"`
	Status    string `json:"status"` // open | fixed
	Signature string `json:"signature"`
	Commit    string `json:"commit,omitempty"`
	What      string `json:"what"`
}

// Violation is one refuting observation
type Violation struct {
	Signature string `json:"signature"`
	What      string `json:"what"`
	Case      any    `json:"case,omitempty"`
	Replay    string `json:"replay,omitempty"`
}

// Run accumulates what one check invocation observed
type Run struct {
	ID    string
	Tier  string
	Seed  int64
	Level string

	start time.Time
	mu    sync.Mutex

	evaluations  int64
	distinct     map[string]struct{}
	rule         string
	samples      []any
	maxSamples   int
	counters     map[string]int64
	sets         map[string]map[string]struct{}
	violations   []Violation
	violSigs     map[string]int
	knownHits    map[string]int
	knownWhat    map[string]string
	inconclusive []string
	assumptions  []string
	extra        map[string]any
	exhaustive   *bool
	findings     []Finding
	replayMode   bool
}

// NewRun creates the accumulator; tier from arg or VERIF_TIER, seed from VERIF_SEED.
func NewRun(id, level, tier string) *Run {
	if tier == "" {
		tier = os.Getenv("VERIF_TIER")
	}
	if tier != "thorough" {
		tier = "quick"
	}
	seed := int64(1)
	if s := os.Getenv("VERIF_SEED"); s != "" {
		if v, err := strconv.ParseInt(s, 10, 64); err == nil {
			seed = v
		}
	}
	r := &Run{ID: id, Tier: tier, Seed: seed, Level: level, start: time.Now(),
		distinct: map[string]struct{}{}, counters: map[string]int64{}, sets: map[string]map[string]struct{}{},
		violSigs: map[string]int{}, knownHits: map[string]int{}, knownWhat: map[string]string{}, extra: map[string]any{}, maxSamples: 8}
	r.findings = LoadFindings()
	return r
}

// LoadFindings reads known_findings.json (missing file = none)
func LoadFindings() []Finding {
	var fs []Finding
	b, err := os.ReadFile(filepath.Join(VerifRoot(), "known_findings.json"))
	if err != nil {
		return nil
	}
	if err := json.Unmarshal(b, &fs); err != nil {
		fmt.Fprintf(os.Stderr, "known_findings.json unreadable: %v\n", err)
		return nil
	}
	return fs
}

func (r *Run) Thorough() bool { return r.Tier == "thorough" }

// Pick returns q in quick tier and t in thorough tier
func (r *Run) Pick(q, t int) int {
	if r.Thorough() {
		return t
	}
	return q
}

func (r *Run) SetRule(s string) { r.mu.Lock(); r.rule = s; r.mu.Unlock() }

func (r *Run) Assume(s string) { r.mu.Lock(); r.assumptions = append(r.assumptions, s); r.mu.Unlock() }

func (r *Run) SetExhaustive(b bool) { r.mu.Lock(); r.exhaustive = &b; r.mu.Unlock() }

func (r *Run) SetExtra(k string, v any) { r.mu.Lock(); r.extra[k] = v; r.mu.Unlock() }

// Eval counts executed cases
func (r *Run) Eval(n int) { r.mu.Lock(); r.evaluations += int64(n); r.mu.Unlock() }

// Nontrivial records a distinct non-trivial case descriptor
func (r *Run) Nontrivial(desc string) {
	r.mu.Lock()
	r.distinct[desc] = struct{}{}
	r.mu.Unlock()
}

// Count adds to a named observation counter
func (r *Run) Count(key string, n int) { r.mu.Lock(); r.counters[key] += int64(n); r.mu.Unlock() }

// Counter reads a counter
func (r *Run) Counter(key string) int64 { r.mu.Lock(); defer r.mu.Unlock(); return r.counters[key] }

// Seen records a member of a named set (evidence reports the set size and a few members)
func (r *Run) Seen(set, member string) {
	r.mu.Lock()
	m := r.sets[set]
	if m == nil {
		m = map[string]struct{}{}
		r.sets[set] = m
	}
	m[member] = struct{}{}
	r.mu.Unlock()
}

func (r *Run) SetSize(set string) int { r.mu.Lock(); defer r.mu.Unlock(); return len(r.sets[set]) }

// Sample keeps the first few cases verbatim
func (r *Run) Sample(v any) {
	r.mu.Lock()
	if len(r.samples) < r.maxSamples {
		r.samples = append(r.samples, v)
	}
	r.mu.Unlock()
}

// Inconclusive records a case with no verdict (watchdog, hook never reached ...)
func (r *Run) Inconclusive(what string) {
	r.mu.Lock()
	if len(r.inconclusive) < 50 {
		r.inconclusive = append(r.inconclusive, what)
	}
	r.counters["inconclusive"]++
	r.mu.Unlock()
}

// Violate records a refuting observation. signature identifies the cause (never the random
// instance). kase must be JSON-serialisable: it is what --replay re-executes.
func (r *Run) Violate(signature, what string, kase any) {
	r.mu.Lock()
	defer r.mu.Unlock()
	for _, f := range r.findings {
		if f.Property == r.ID && f.Status == "open" && f.Signature == signature {
			r.knownHits[signature]++
			r.knownWhat[signature] = f.What
			return
		}
	}
	r.violSigs[signature]++
	if r.violSigs[signature] > 3 || len(r.violations) >= 40 {
		return // keep a few witnesses per cause
	}
	r.violations = append(r.violations, Violation{Signature: signature, What: what, Case: kase})
}

func (r *Run) NumViolations() int { r.mu.Lock(); defer r.mu.Unlock(); return len(r.violations) }

// Finish writes evidence and replay files, prints verdict lines, returns the exit code.
func (r *Run) Finish() int {
	r.mu.Lock()
	defer r.mu.Unlock()
	root := VerifRoot()
	exit := 0

	sigs := make([]string, 0, len(r.knownHits))
	for s := range r.knownHits {
		sigs = append(sigs, s)
	}
	sort.Strings(sigs)
	for _, s := range sigs {
		fmt.Printf("KNOWN-FINDING: property=%s %s [signature: %s; seen %d times]\n", r.ID, r.knownWhat[s], s, r.knownHits[s])
	}

	if len(r.violations) > 0 && !r.replayMode {
		dir := filepath.Join(root, "replay", r.ID)
		if d := os.Getenv("VERIF_EVIDENCE_DIR"); d != "" {
			dir = filepath.Join(d, "replay", r.ID)
		}
		os.MkdirAll(dir, 0o755)
		for i := range r.violations {
			v := &r.violations[i]
			p := filepath.Join(dir, fmt.Sprintf("%s-seed%d-%d.json", r.Tier, r.Seed, i))
			b, _ := json.MarshalIndent(map[string]any{"property": r.ID, "signature": v.Signature, "what": v.What, "case": v.Case, "seed": r.Seed, "tier": r.Tier}, "", " ")
			os.WriteFile(p, b, 0o644)
			v.Replay = p
		}
	}
	for _, v := range r.violations {
		exit = 1
		fmt.Printf("VIOLATION property=%s replay=%s\n", r.ID, v.Replay)
		fmt.Printf("  signature: %s\n  what: %s\n", v.Signature, v.What)
	}

	nontrivial := len(r.distinct)
	observedNothing := r.evaluations == 0 || nontrivial < 2
	if observedNothing && exit == 0 && !r.replayMode {
		fmt.Printf("INCONCLUSIVE property=%s: the run observed nothing non-trivial (evaluations=%d distinct_nontrivial=%d)\n", r.ID, r.evaluations, nontrivial)
		exit = 2
	}

	cov := map[string]any{
		"evaluations":         r.evaluations,
		"distinct_nontrivial": nontrivial,
		"rule":                r.rule,
		"samples":             r.samples,
		"observations":        r.counters,
	}
	if r.samples == nil {
		cov["samples"] = []any{}
	}
	setInfo := map[string]any{}
	for name, m := range r.sets {
		members := make([]string, 0, len(m))
		for k := range m {
			members = append(members, k)
		}
		sort.Strings(members)
		if len(members) > 400 {
			members = members[:400]
		}
		setInfo[name] = map[string]any{"size": len(m), "members": members}
	}
	cov["distinct_sets"] = setInfo
	if r.exhaustive != nil {
		cov["exhaustive"] = *r.exhaustive
	}
	if len(r.inconclusive) > 0 {
		cov["inconclusive_cases"] = r.inconclusive
	}
	known := map[string]int{}
	for s, n := range r.knownHits {
		known[s] = n
	}
	cov["known_findings_hit"] = known
	for k, v := range r.extra {
		cov[k] = v
	}
	viol := []any{}
	for _, v := range r.violations {
		viol = append(viol, map[string]any{"signature": v.Signature, "what": v.What, "replay": v.Replay})
	}
	cov["violation_witnesses"] = viol
	ev := map[string]any{
		"property_id": r.ID,
		"tier":        r.Tier,
		"seed":        r.Seed,
		"level":       r.Level,
		"coverage":    cov,
		"assumptions": append([]string{}, r.assumptions...),
		"wall_s":      time.Since(r.start).Seconds(),
		"violations":  len(r.violations),
	}
	if !r.replayMode {
		b, err := json.MarshalIndent(ev, "", " ")
		if err != nil {
			fmt.Fprintf(os.Stderr, "evidence marshal: %v\n", err)
			return 3
		}
		evDir := filepath.Join(root, "evidence")
		if d := os.Getenv("VERIF_EVIDENCE_DIR"); d != "" {
			evDir = d // used when a check is pointed at a deliberately broken tree: do not touch the real evidence
		}
		os.MkdirAll(evDir, 0o755)
		tmp := filepath.Join(evDir, r.ID+".json.tmp")
		if err := os.WriteFile(tmp, b, 0o644); err != nil {
			fmt.Fprintf(os.Stderr, "evidence write: %v\n", err)
			return 3
		}
		os.Rename(tmp, filepath.Join(evDir, r.ID+".json"))
	}
	fmt.Printf("%s %s seed=%d: evaluations=%d distinct_nontrivial=%d violations=%d known_findings=%d inconclusive=%d wall=%.1fs\n",
		r.ID, r.Tier, r.Seed, r.evaluations, nontrivial, len(r.violations), len(r.knownHits), r.counters["inconclusive"], time.Since(r.start).Seconds())
	return exit
}

// SetReplayMode: no evidence / replay files are written
func (r *Run) SetReplayMode() { r.replayMode = true }

// LoadReplay reads the case of a replay file into v
func LoadReplay(path string, v any) error {
	b, err := os.ReadFile(path)
	if err != nil {
		return err
	}
	var w struct {
		Case json.RawMessage `json:"case"`
	}
	if err := json.Unmarshal(b, &w); err != nil {
		return err
	}
	return json.Unmarshal(w.Case, v)
}
