// Package container is an INDEPENDENT bit-level parser and writer of the kanzi (.knz, format
// version 6) container: stream header with its 24-bit check, the chain of length-prefixed
// blocks, the per-block mode byte / skip flags / stored length / stored checksum, and the end
// marker. It is written from the format description and shares no code with /repo.
package container

import (
	"errors"
	"fmt"
)

// Bits is a trivially simple MSB-first bit vector
type Bits struct {
	B   []byte
	Len int // number of valid bits
}

func (b *Bits) Put(v uint64, n int) {
	for i := n - 1; i >= 0; i-- {
		bit := byte((v >> uint(i)) & 1)
		if b.Len&7 == 0 {
			b.B = append(b.B, 0)
		}
		b.B[b.Len>>3] |= bit << uint(7-b.Len&7)
		b.Len++
	}
}

// PutBits appends nbits bits taken MSB-first from src starting at bit offset off
func (b *Bits) PutBits(src []byte, off, nbits int) {
	for i := 0; i < nbits; i++ {
		p := off + i
		bit := (src[p>>3] >> uint(7-p&7)) & 1
		b.Put(uint64(bit), 1)
	}
}

func Get(src []byte, off, n int) (uint64, error) {
	if off < 0 || n < 0 || off+n > len(src)*8 {
		return 0, errors.New("out of data")
	}
	var v uint64
	for i := 0; i < n; i++ {
		p := off + i
		v = v<<1 | uint64((src[p>>3]>>uint(7-p&7))&1)
	}
	return v, nil
}

// Header is the decoded stream header
type Header struct {
	Version   int
	CkSize    int // 0, 32, 64
	Entropy   uint32
	Transform uint64
	BlockSize int
	SzMask    int
	Size      int64
	CRC       uint32
	Bits      int // header length in bits
}

// Block describes one block of the chain. All offsets are bit offsets in the whole stream.
type Block struct {
	Index      int // 1-based
	PrefixOff  int // bit offset of the 5-bit length-of-length field
	LenBits    int // width of the length field (lw)
	PayloadOff int // bit offset of the first payload bit
	PayloadLen int // payload length in bits
	Mode       byte
	Copy       bool
	SkipFlags  byte
	HasSkip    bool // separate skip flags byte present
	DataSize   int  // bytes of the stored length field
	PreLen     int  // stored pre-entropy (post-transform) length
	Checksum   uint64
	CkOff      int // bit offset of stored checksum (if any)
	DataOff    int // bit offset of the entropy coded data
	DataLen    int // bits of entropy coded data (to the end of payload)
}

// Stream is a parsed container
type Stream struct {
	Raw     []byte
	Hdr     Header
	Blocks  []Block
	EndOff  int // bit offset of the end marker (5+3 zero bits)
	EndBits int // total bits including end marker
}

// HeaderCRC computes the 24-bit header check of format version 6
func HeaderCRC(h *Header) uint32 {
	const HASH = uint32(0x1E35A7BD)
	seed := uint32(0x01030507 * 6)
	ck := 0
	switch h.CkSize {
	case 32:
		ck = 1
	case 64:
		ck = 2
	}
	c := HASH * seed
	c ^= HASH * uint32(^uint32(ck))
	c ^= HASH * ^h.Entropy
	c ^= HASH * uint32((^h.Transform)>>32)
	c ^= HASH * uint32(^h.Transform)
	c ^= HASH * uint32(^uint32(h.BlockSize))
	if h.SzMask > 0 {
		c ^= HASH * uint32(uint64(^h.Size)>>32)
		c ^= HASH * uint32(^h.Size)
	}
	c = (c >> 23) ^ (c >> 3)
	return c & 0xFFFFFF
}

// ParseHeader parses a version-6 header at bit 0
func ParseHeader(raw []byte) (Header, error) {
	var h Header
	g := func(off, n int) uint64 {
		v, err := Get(raw, off, n)
		if err != nil {
			panic(err)
		}
		return v
	}
	var err error
	func() {
		defer func() {
			if r := recover(); r != nil {
				err = fmt.Errorf("header: %v", r)
			}
		}()
		if g(0, 32) != 0x4B414E5A {
			panic("bad magic")
		}
		h.Version = int(g(32, 4))
		if h.Version != 6 {
			panic(fmt.Sprintf("version %d not supported by the independent parser", h.Version))
		}
		h.CkSize = int(g(36, 2)) * 32
		h.Entropy = uint32(g(38, 5))
		h.Transform = g(43, 48)
		h.BlockSize = int(g(91, 28)) << 4
		h.SzMask = int(g(119, 2))
		off := 121
		if h.SzMask > 0 {
			h.Size = int64(g(off, 16*h.SzMask))
			off += 16 * h.SzMask
		}
		off += 15
		h.CRC = uint32(g(off, 24))
		off += 24
		h.Bits = off
	}()
	return h, err
}

// Parse parses a whole stream (with header). ckSize/headerless streams: use ParseBlocks.
func Parse(raw []byte) (*Stream, error) {
	h, err := ParseHeader(raw)
	if err != nil {
		return nil, err
	}
	if HeaderCRC(&h) != h.CRC {
		return nil, fmt.Errorf("header check mismatch: stored %x computed %x", h.CRC, HeaderCRC(&h))
	}
	s := &Stream{Raw: raw, Hdr: h}
	if err := s.parseBlocks(h.Bits, h.CkSize); err != nil {
		return s, err
	}
	return s, nil
}

// ParseHeaderless parses a block chain that starts at bit 0
func ParseHeaderless(raw []byte, ckSize int) (*Stream, error) {
	s := &Stream{Raw: raw}
	s.Hdr.CkSize = ckSize
	err := s.parseBlocks(0, ckSize)
	return s, err
}

func (s *Stream) parseBlocks(off, ckSize int) error {
	raw := s.Raw
	for idx := 1; ; idx++ {
		lwm3, err := Get(raw, off, 5)
		if err != nil {
			return fmt.Errorf("block %d: truncated length prefix", idx)
		}
		lw := int(lwm3) + 3
		ln, err := Get(raw, off+5, lw)
		if err != nil {
			return fmt.Errorf("block %d: truncated length", idx)
		}
		if ln == 0 {
			s.EndOff = off
			s.EndBits = off + 5 + lw
			if lw != 3 {
				return fmt.Errorf("end marker with length width %d", lw)
			}
			return nil
		}
		b := Block{Index: idx, PrefixOff: off, LenBits: lw, PayloadOff: off + 5 + lw, PayloadLen: int(ln)}
		if b.PayloadOff+b.PayloadLen > len(raw)*8 {
			return fmt.Errorf("block %d: payload overruns the stream", idx)
		}
		p := b.PayloadOff
		m, _ := Get(raw, p, 8)
		b.Mode = byte(m)
		p += 8
		b.Copy = b.Mode&0x80 != 0
		if !b.Copy {
			if b.Mode&0x10 != 0 {
				sf, _ := Get(raw, p, 8)
				b.SkipFlags = byte(sf)
				b.HasSkip = true
				p += 8
			} else {
				b.SkipFlags = (b.Mode << 4) | 0x0F
			}
		} else {
			b.SkipFlags = 0xFF
		}
		b.DataSize = 1 + int((b.Mode>>5)&3)
		pl, err := Get(raw, p, 8*b.DataSize)
		if err != nil {
			return fmt.Errorf("block %d: truncated stored length", idx)
		}
		b.PreLen = int(pl)
		p += 8 * b.DataSize
		if ckSize > 0 {
			b.CkOff = p
			ck, err := Get(raw, p, ckSize)
			if err != nil {
				return fmt.Errorf("block %d: truncated checksum", idx)
			}
			b.Checksum = ck
			p += ckSize
		}
		b.DataOff = p
		b.DataLen = b.PayloadOff + b.PayloadLen - p
		if b.DataLen < 0 {
			return fmt.Errorf("block %d: payload shorter than its own header", idx)
		}
		s.Blocks = append(s.Blocks, b)
		off = b.PayloadOff + b.PayloadLen
	}
}

// WriteHeader emits a version-6 header (CRC recomputed unless keepCRC)
func WriteHeader(out *Bits, h *Header, recomputeCRC bool) {
	out.Put(0x4B414E5A, 32)
	out.Put(uint64(h.Version), 4)
	out.Put(uint64(h.CkSize/32), 2)
	out.Put(uint64(h.Entropy), 5)
	out.Put(h.Transform, 48)
	out.Put(uint64(h.BlockSize>>4), 28)
	out.Put(uint64(h.SzMask), 2)
	if h.SzMask > 0 {
		out.Put(uint64(h.Size), 16*h.SzMask)
	}
	out.Put(0, 15)
	crc := h.CRC
	if recomputeCRC {
		crc = HeaderCRC(h)
	}
	out.Put(uint64(crc), 24)
}

// WriteLegacyHeader emits a header of format version v (0..5) as the reader still accepts them (written from the format notes in
// the reader's comments: 1 checksum bit instead of 2; versions 3-4: 6-bit block count + 4-bit check; version 5: size field + 16-bit
// check; versions 0-2: 6-bit block count + 4 reserved bits, no check)
func WriteLegacyHeader(out *Bits, v int, h *Header, nbBlocks int) {
	const HASH = uint32(0x1E35A7BD)
	out.Put(0x4B414E5A, 32)
	out.Put(uint64(v), 4)
	if h.CkSize != 0 {
		out.Put(1, 1)
	} else {
		out.Put(0, 1)
	}
	out.Put(uint64(h.Entropy), 5)
	out.Put(h.Transform, 48)
	out.Put(uint64(h.BlockSize>>4), 28)
	switch {
	case v >= 5:
		out.Put(uint64(h.SzMask), 2)
		if h.SzMask > 0 {
			out.Put(uint64(h.Size), 16*h.SzMask)
		}
		c := HASH * uint32(v)
		c ^= HASH * ^h.Entropy
		c ^= HASH * uint32((^h.Transform)>>32)
		c ^= HASH * uint32(^h.Transform)
		c ^= HASH * uint32(^uint32(h.BlockSize))
		if h.SzMask > 0 {
			c ^= HASH * uint32(uint64(^h.Size)>>32)
			c ^= HASH * uint32(^h.Size)
		}
		c = (c >> 23) ^ (c >> 3)
		out.Put(uint64(c&0xFFFF), 16)
	case v >= 3:
		out.Put(uint64(nbBlocks&63), 6)
		c := HASH * uint32(v)
		c ^= HASH * h.Entropy
		c ^= HASH * uint32(h.Transform>>32)
		c ^= HASH * uint32(h.Transform)
		c ^= HASH * uint32(h.BlockSize)
		c ^= HASH * uint32(nbBlocks&63)
		c = (c >> 23) ^ (c >> 3)
		out.Put(uint64(c&0x0F), 4)
	default:
		out.Put(uint64(nbBlocks&63), 6)
		out.Put(0, 4)
	}
}

// WriteBlock emits the length prefix and payload bits
func WriteBlock(out *Bits, payload []byte, payloadBits int) {
	lw := 3
	if payloadBits >= 8 {
		lw = log2(uint32(payloadBits>>3)) + 4
	}
	out.Put(uint64(lw-3), 5)
	out.Put(uint64(payloadBits), lw)
	out.PutBits(payload, 0, payloadBits)
}

// WriteEnd emits the end marker
func WriteEnd(out *Bits) { out.Put(0, 5); out.Put(0, 3) }

func log2(x uint32) int {
	n := -1
	for x != 0 {
		x >>= 1
		n++
	}
	return n
}

// PayloadBits extracts a block payload as its own byte slice (bit 0 aligned)
func (s *Stream) PayloadBits(b *Block) *Bits {
	o := &Bits{}
	o.PutBits(s.Raw, b.PayloadOff, b.PayloadLen)
	return o
}

// FlipBit returns a copy of raw with the given bit flipped
func FlipBit(raw []byte, bit int) []byte {
	c := append([]byte(nil), raw...)
	c[bit>>3] ^= 1 << uint(7-bit&7)
	return c
}

// SetBits overwrites n bits at off with v (in place)
func SetBits(raw []byte, off, n int, v uint64) {
	for i := 0; i < n; i++ {
		p := off + i
		bit := byte((v >> uint(n-1-i)) & 1)
		raw[p>>3] = raw[p>>3]&^(1<<uint(7-p&7)) | bit<<uint(7-p&7)
	}
}

// Rebuild re-assembles a stream from a header and payloads
func Rebuild(h *Header, withHeader bool, payloads []*Bits, end bool) []byte {
	out := &Bits{}
	if withHeader {
		WriteHeader(out, h, true)
	}
	for _, p := range payloads {
		WriteBlock(out, p.B, p.Len)
	}
	if end {
		WriteEnd(out)
	}
	return out.B
}
