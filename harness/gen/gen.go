// Package gen: deterministic data-shape generators chosen so that every content detector
// of kanzi-go (text, UTF-8, DNA, numeric, base64, executables, multimedia, small alphabets,
// runs, skewed histograms, incompressible data, magic numbers) fires on some shape.
package gen

import (
	"encoding/binary"
	"fmt"
	"math"
	"strings"

	"verifharness/core"
)

// Shapes lists all generator names.
var Shapes = []string{
	"text", "textcrlf", "html", "cyrillic", "cjk", "utf8big", "dna", "numeric", "base64",
	"elfx86", "pe", "elfarm64", "elfbogus", "pebogus", "machobogus", "wav", "bmp", "ppm", "runs", "zeros",
	"skewed", "raredom", "ramp255", "ramp256", "smallalpha", "periodic", "random", "magicmix", "repeatblocks", "sorted", "utf8dirty", "longruns", "farmatch", "crlfcut", "constchunks", "randtext", "bigvocab", "fsdstress", "ffmix", "wordlist", "wordlist3", "staircase", "staircase2", "clusterq", "fibword", "thuemorse", "bigperiod", "utfcont", "rangeedge", "vocabrepeat", "nulblocks",
}

var words = strings.Fields(`the of and to a in is that it was for on are as with his they at be this from have or by one had not but what all were
when we there can an your which their said if do will each about how up out them then she many some so these would other into has more her two
like him see time could no make than first been its who now people my made over did down only way find use may water long little very after words
called just where most know get through back much before go good new write our used me man too any day same right look think also around another
came come work three word must because does part even place well such here take why things help put years different away again off went old number
great tell men say small every found still between name should home big give air line set own under read last never us left end along while might
next sound below saw something thought both few those always looked show large often together asked house don't world going want school important
until form food keep children feet land side without boy once animals life enough took sometimes four head above kind began almost live page got
earth need far hand high year mother light parts country father let night following picture being study second eyes soon times story boys since
white days ever paper hard near sentence better best across during today others however sure means knew its try told young miles sun ways thing
whole hear example heard several change answer room sea against top turned learn point city play toward five using himself usually compression
algorithm entropy transform bitstream dictionary Burrows Wheeler Huffman arithmetic`)

// Make returns n bytes of the named shape, deterministic in (shape, n, seed).
func Make(shape string, n int, seed int64) []byte {
	r := core.Derive(seed, "gen", shape, n)
	b := make([]byte, 0, n+64)
	if strings.HasPrefix(shape, "alphau:") {
		// exactly k distinct symbols, UNIFORMLY distributed (all k*k adjacent pairs occur for n >> k*k)
		k := 1
		fmt.Sscanf(shape[7:], "%d", &k)
		k = max(1, min(k, 256))
		base := r.Intn(257 - k)
		for i := 0; i < n; i++ {
			if i < k {
				b = append(b, byte(base+i))
			} else {
				b = append(b, byte(base+r.Intn(k)))
			}
		}
		return b
	}
	if strings.HasPrefix(shape, "litrun:") {
		// a literal run of (about) k incompressible bytes, then periodic text that the LZ family codes as matches: the
		// multi-byte forms of the literal-length fields at their exact boundaries
		k := 0
		fmt.Sscanf(shape[7:], "%d", &k)
		k = max(0, min(k, n))
		b = make([]byte, k)
		r.Fill(b)
		pat := []byte("the quick brown fox jumps over the lazy dog; ")
		for len(b) < n {
			b = append(b, pat...)
		}
		return b[:n]
	}
	if strings.HasPrefix(shape, "alpha:") {
		// exactly k distinct symbols (when n >= k), mildly skewed: boundary cases of the alphabet / frequency headers
		k := 1
		fmt.Sscanf(shape[6:], "%d", &k)
		k = max(1, min(k, 256))
		base := r.Intn(257 - k)
		for i := 0; i < n; i++ {
			if i < k {
				b = append(b, byte(base+i))
			} else {
				b = append(b, byte(base+zipf(r, k)))
			}
		}
		// shuffle a little so that the first k bytes are not a ramp
		for i := 0; i+1 < len(b) && i < 4*k; i++ {
			j := r.Intn(len(b))
			b[i], b[j] = b[j], b[i]
		}
		return b
	}
	switch shape {
	case "text", "textcrlf":
		nl := "\n"
		if shape == "textcrlf" {
			nl = "\r\n"
		}
		col := 0
		for len(b) < n {
			w := words[zipf(r, len(words))]
			if r.Intn(12) == 0 {
				w = strings.ToUpper(w[:1]) + w[1:]
			}
			b = append(b, w...)
			col += len(w)
			switch {
			case r.Intn(14) == 0:
				b = append(b, ". "...)
			case r.Intn(25) == 0:
				b = append(b, ", "...)
			default:
				b = append(b, ' ')
			}
			if col > 60+r.Intn(20) {
				b = append(b, nl...)
				col = 0
				if r.Intn(6) == 0 {
					b = append(b, nl...)
				}
			}
		}
	case "html":
		tags := []string{"div", "p", "span", "a", "li", "ul", "table", "tr", "td", "h1", "h2", "body", "section"}
		for len(b) < n {
			t := tags[r.Intn(len(tags))]
			b = append(b, fmt.Sprintf("<%s class=\"c%d\" id=\"x%d\">", t, r.Intn(9), r.Intn(1000))...)
			for k := r.Intn(8); k > 0; k-- {
				b = append(b, words[zipf(r, len(words))]...)
				b = append(b, ' ')
			}
			if r.Intn(5) == 0 {
				b = append(b, "&amp;&lt;&gt;&quot;"...)
			}
			b = append(b, fmt.Sprintf("</%s>\n", t)...)
		}
	case "cyrillic":
		for len(b) < n {
			wl := 2 + r.Intn(9)
			for k := 0; k < wl; k++ {
				c := rune(0x430 + zipf(r, 32))
				b = appendRune(b, c)
			}
			if r.Intn(10) == 0 {
				b = append(b, '.', '\n')
			} else {
				b = append(b, ' ')
			}
		}
	case "cjk":
		for len(b) < n {
			switch r.Intn(20) {
			case 0:
				b = appendRune(b, rune(0x1F600+r.Intn(64))) // emoji, 4 bytes
			case 1:
				b = append(b, '\n')
			case 2:
				b = appendRune(b, 0x3002)
			default:
				b = appendRune(b, rune(0x4E00+zipf(r, 3000)))
			}
		}
	case "utf8big":
		// mixed 2/3/4-byte UTF-8 with a very large symbol map (>= 10^4 distinct code points)
		for len(b) < n {
			switch r.Intn(4) {
			case 0:
				b = appendRune(b, rune(0x80+r.Intn(0x700)))
			case 1, 2:
				c := rune(0x800 + r.Intn(0xF000))
				if c >= 0xD800 && c < 0xE000 {
					c = 0x4E00
				}
				b = appendRune(b, c)
			default:
				b = appendRune(b, rune(0x10000+r.Intn(0x8000)))
			}
			if r.Intn(9) == 0 {
				b = append(b, ' ')
			}
		}
	case "utf8dirty":
		// well-formed looking UTF-8 (small symbol map, mostly 3-byte sequences plus ASCII words) in which a
		// few 3rd/4th bytes of multi-byte sequences are NOT continuation bytes
		syms := []rune{0x20AC, 0x4E2D, 0x6587, 0x65E5, 0x672C, 0x8A9E, 0x3042, 0x3044, 0x3046, 0x2013, 0x2019, 0x1F600, 0x1F601}
		next := 1500 + r.Intn(3000)
		for len(b) < n {
			switch r.Intn(6) {
			case 0:
				b = append(b, words[zipf(r, 60)]...)
				b = append(b, ' ')
			case 1:
				b = append(b, '\n')
			default:
				c := syms[zipf(r, len(syms))]
				start := len(b)
				b = appendRune(b, c)
				if len(b) > next {
					// damage the last byte of this sequence
					b[len(b)-1] = "A0 z"[r.Intn(4)]
					if r.Intn(3) == 0 && len(b)-start == 4 {
						b[len(b)-2] = 0x41
					}
					next = len(b) + 2000 + r.Intn(20000)
				}
			}
		}
	case "longruns":
		// very long runs (beyond the 1/2/3-byte run length forms of the RLT family) separated by short literals
		for len(b) < n {
			c := byte(r.Intn(5) * 51)
			l := []int{300, 5000, 7935, 7936, 7940, 9000, 40000, 70000, 300000}[r.Intn(9)] + r.Intn(7)
			for k := 0; k < l && len(b) < n; k++ {
				b = append(b, c)
			}
			for k := r.Intn(6); k > 0; k-- {
				b = append(b, r.Byte())
			}
		}
	case "farmatch":
		// incompressible segment repeated at long distances (LZ / ROLZ offsets beyond 64 KiB when n allows)
		seg := make([]byte, max(min(n/3, 200000), 1))
		r.Fill(seg)
		for len(b) < n {
			b = append(b, seg...)
			fill := make([]byte, r.Intn(1+n/10))
			r.Fill(fill)
			b = append(b, fill...)
		}
	case "crlfcut":
		// a slice of a DOS text file cut between CR and LF at BOTH ends: starts with LF, ends with CR,
		// every other CR is followed by LF (what a fixed block size does to a CRLF file)
		if n < 2 {
			b = append(b, '\n')
			break
		}
		b = append(b, '\n')
		for len(b) < n-1 {
			w := words[zipf(r, len(words))]
			b = append(b, w...)
			if r.Intn(9) == 0 && len(b) < n-3 {
				b = append(b, '\r', '\n')
			} else {
				b = append(b, ' ')
			}
		}
		if len(b) > n-1 {
			b = b[:n-1]
		}
		if n >= 2 {
			if b[len(b)-1] == '\r' { // do not end with CR CR
				b[len(b)-1] = ' '
			}
			b = append(b, '\r')
		}
	case "constchunks":
		// 16 KiB / 32 KiB regions holding a single byte value alternating with ordinary text: single-symbol
		// chunks of the static entropy coders in the middle of a block
		for len(b) < n {
			c := byte(r.Intn(256))
			l := []int{16384, 32768, 65536, 4096}[r.Intn(4)]
			for k := 0; k < l && len(b) < n; k++ {
				b = append(b, c)
			}
			t := Make("text", []int{16384, 32768, 100}[r.Intn(3)], seed+int64(len(b)))
			b = append(b, t...)
		}
	case "randtext":
		// one very long literal run (65 % incompressible bytes) followed by compressible text: the multi-byte
		// literal-length forms of the LZ family inside a block that is still worth compressing
		rl := n * 65 / 100
		b = make([]byte, rl)
		r.Fill(b)
		b = append(b, Make("text", n-rl, seed+5)...)
	case "bigvocab":
		// text whose vocabulary is much larger than the dictionaries (tens of thousands of distinct words, each used twice)
		nw := max(n/14, 1)
		mk := func(i int) []byte {
			w := make([]byte, 0, 8)
			x := i*2654435761 + 12345
			for k := 0; k < 6; k++ {
				w = append(w, byte('a'+(x>>uint(5*k))%26))
			}
			return w
		}
		for pass := 0; pass < 2 && len(b) < n; pass++ {
			for i := 0; i < nw && len(b) < n; i++ {
				b = append(b, mk(i)...)
				if i%11 == 10 {
					b = append(b, '\n')
				} else {
					b = append(b, ' ')
				}
			}
		}
	case "wordlist3":
		// like wordlist, with 3- and 4-letter words mixed in (short words are admitted to a dictionary under other rules)
		for i := 0; len(b) < n; i++ {
			ln := 3 + r.Intn(9)
			if r.Intn(5) == 0 {
				ln = 3
			}
			for k := 0; k < ln; k++ {
				b = append(b, byte('a'+r.Intn(26)))
			}
			if i%10 == 9 {
				b = append(b, '\n')
			} else {
				b = append(b, ' ')
			}
		}
		b = b[:n]
	case "wordlist":
		// (almost surely) every word different: 6..11 random lower-case letters - a vocabulary that overflows every dictionary
		// (word lists, logs full of unique identifiers)
		for i := 0; len(b) < n; i++ {
			ln := 6 + r.Intn(6)
			for k := 0; k < ln; k++ {
				b = append(b, byte('a'+r.Intn(26)))
			}
			if i%10 == 9 {
				b = append(b, '\n')
			} else {
				b = append(b, ' ')
			}
		}
		b = b[:n]
	case "nulblocks":
		// html whose bytes at every multiple of 1 MiB are 0 (the smallest symbol at the very start of multi-MiB blocks)
		b = Make("html", n, seed+9)
		for i := 0; i < len(b); i += 1 << 20 {
			b[i] = 0
		}
	case "vocabrepeat":
		// 85 % of the block: words that are (almost surely) all different; last 15 %: the most recent of those words again, in
		// order - references to dictionary entries with the highest indexes a block of this size can create
		var starts []int
		lim := n * 85 / 100
		for i := 0; len(b) < lim; i++ {
			starts = append(starts, len(b))
			ln := 5 + r.Intn(6)
			for k := 0; k < ln; k++ {
				b = append(b, byte('a'+r.Intn(26)))
			}
			if i%10 == 9 {
				b = append(b, '\n')
			} else {
				b = append(b, ' ')
			}
		}
		first := len(starts) * 80 / 100
		for i := first; len(b) < n && i+1 < len(starts); i++ {
			b = append(b, b[starts[i]:starts[i+1]]...)
		}
		for len(b) < n {
			b = append(b, ' ')
		}
		b = b[:n]
	case "rangeedge":
		// chunks of 32768 bytes whose scaled frequencies are exact powers of two (value 0 x8, value 1 x248, values 2..255 x128
		// each) and which start with four ordinary symbols (the 4th a multiple of 16) followed by the rarest one: drives a
		// range coder to the exact bottom of its range while the interval straddles a carry boundary
		for len(b) < n {
			var ch []byte
			for k := 0; k < 8; k++ {
				ch = append(ch, 0)
			}
			for k := 0; k < 248; k++ {
				ch = append(ch, 1)
			}
			for v := 2; v < 256; v++ {
				for k := 0; k < 128; k++ {
					ch = append(ch, byte(v))
				}
			}
			for i := len(ch) - 1; i > 0; i-- {
				j := r.Intn(i + 1)
				ch[i], ch[j] = ch[j], ch[i]
			}
			pre := []byte{byte(2 + r.Intn(254)), byte(2 + r.Intn(254)), byte(2 + r.Intn(254)), byte(16 * (1 + r.Intn(15))), 0}
			// swap the prefix symbols into place (keeps the histogram)
			for i, v := range pre {
				for j := i; j < len(ch); j++ {
					if ch[j] == v {
						ch[i], ch[j] = ch[j], ch[i]
						break
					}
				}
			}
			b = append(b, ch...)
		}
		b = b[:n]
	case "utfcont":
		// UTF-8 text whose first bytes are 1..5 stray continuation bytes and whose last bytes are a truncated sequence: what a block
		// boundary in the middle of a character (or garbage before the text) looks like
		k := 1 + r.Intn(5)
		for i := 0; i < k; i++ {
			b = append(b, byte(0x80+r.Intn(64)))
		}
		t := Make([]string{"cjk", "cyrillic"}[r.Intn(2)], max(n-k, 0), seed+3)
		b = append(b, t...)
		if len(b) > n {
			b = b[:n]
		}
	case "fibword":
		// Fibonacci word over two symbols: maximal number of long repeated substrings (worst case for suffix sorting merges)
		x, y := []byte{byte('a' + r.Intn(3))}, []byte{byte('x'), byte('a' + r.Intn(3))}
		for len(y) < n {
			x, y = y, append(append([]byte{}, y...), x...)
		}
		b = y[:n]
	case "thuemorse":
		// Thue-Morse sequence (cube free, overlap free: many near-repeats of every length), two symbols
		b = make([]byte, n)
		lo, hi := byte('0'+r.Intn(5)), byte('A'+r.Intn(20))
		for i := range b {
			v, k := 0, i
			for k > 0 {
				v ^= k & 1
				k >>= 1
			}
			if v == 0 {
				b[i] = lo
			} else {
				b[i] = hi
			}
		}
	case "bigperiod":
		// a random period of a few thousand bytes repeated, with a single mutation per repetition (very long common prefixes)
		per := 1000 + r.Intn(6000)
		base := make([]byte, per)
		r.Fill(base)
		for len(b) < n {
			k := len(b)
			b = append(b, base...)
			if k+per <= n+per {
				b[k+r.Intn(per)] ^= byte(1 + r.Intn(255))
			}
		}
		b = b[:n]
	case "clusterq":
		// per 16 KiB chunk: three quarters made of 2-3 byte values (1-2 bit codes), one quarter (which one varies from chunk to
		// chunk) drawing uniformly from 200+ other values (long codes): the coded size of the quarters differs by a factor of 5+
		nv := 200 + r.Intn(54)
		dom := 2 + r.Intn(2)
		for i := 0; i < n; i++ {
			chunk := i / 16384
			q := (i % 16384) / 4096
			if q == (chunk+int(seed))%4 {
				b = append(b, byte(dom+r.Intn(nv)))
			} else {
				b = append(b, byte(r.Intn(dom)))
			}
		}
	case "staircase", "staircase2":
		// a histogram that defeats length-limited prefix codes: a few symbols of tiny equal counts, then counts growing like a
		// Fibonacci sequence up to exactly n in total (optimal code lengths far above 12 bits with only ~2000 samples)
		var counts []int
		sum := 0
		for i, m := 0, 2+r.Intn(8); i < m && sum+3 < n; i++ {
			c := 2 + r.Intn(2)
			counts = append(counts, c)
			sum += c
		}
		a, bb := 3, 5+r.Intn(4)
		if shape == "staircase2" {
			// a gap between the tiny counts and the start of the staircase (no symbol with an intermediate code length)
			a = 10 + r.Intn(8)
			bb = a + 8 + r.Intn(8)
			counts = append(counts, a)
			sum += a
		}
		for sum+a+bb < n && len(counts) < 250 {
			counts = append(counts, bb)
			sum += bb
			a, bb = bb, a+bb+r.Intn(3)
		}
		if rest := n - sum; rest > 0 {
			if len(counts) > 0 && rest < counts[len(counts)-1] {
				counts[len(counts)-1] += rest // keep the staircase monotone
			} else {
				counts = append(counts, rest)
			}
		}
		base := r.Intn(257 - len(counts))
		for i, c := range counts {
			for k := 0; k < c; k++ {
				b = append(b, byte(base+i))
			}
		}
		for i := len(b) - 1; i > 0; i-- {
			j := r.Intn(i + 1)
			b[i], b[j] = b[j], b[i]
		}
	case "fsdstress":
		// smooth ramps where the multimedia detector samples (so that delta coding is selected) and large jumps elsewhere
		// (every byte then needs the 2-byte escape form: the output margin is exhausted)
		b = make([]byte, n)
		smooth := func(i int) bool {
			return (i >= n/10 && i < n/5) || (i >= 2*n/5 && i < 3*n/5) || i >= 9*n/10
		}
		off := r.Intn(2)
		for i := range b {
			if smooth(i) {
				b[i] = byte(i >> 3)
			} else if (i+off)%2 == 0 {
				b[i] = 20
			} else {
				b[i] = 220
			}
		}
	case "ffmix":
		// zero runs, the escape-prone byte values 0xFE / 0xFF and ordinary literals, ending on a high byte:
		// stresses the "how much room is left" checks of the run-length stages
		for len(b) < n {
			switch r.Intn(6) {
			case 0:
				for k := r.Intn(5); k > 0; k-- {
					b = append(b, 0)
				}
			case 1, 2:
				b = append(b, byte(0xFE+r.Intn(2)))
			default:
				b = append(b, byte(1+r.Intn(250)))
			}
		}
		if n > 0 {
			b = b[:n]
			b[n-1] = byte(0xFE + r.Intn(2))
			if n > 2 && r.Intn(2) == 0 {
				b[n-2] = 0xFF
			}
		}
	case "dna":
		col := 0
		if r.Intn(2) == 0 {
			b = append(b, ">seq1 sample\n"...)
		}
		for len(b) < n {
			b = append(b, "ACGT"[zipf(r, 4)])
			col++
			if col == 60 {
				b = append(b, '\n')
				col = 0
			}
			if r.Intn(300) == 0 {
				b = append(b, 'N')
			}
		}
	case "numeric":
		for len(b) < n {
			b = append(b, fmt.Sprintf("%d", r.Intn(1000000))...)
			switch r.Intn(6) {
			case 0:
				b = append(b, '\n')
			case 1:
				b = append(b, '.')
			case 2:
				b = append(b, '-')
			default:
				b = append(b, ',')
			}
		}
	case "base64":
		const a = "ABCDEFGHIJKLMNOPQRSTUVWXYZabcdefghijklmnopqrstuvwxyz0123456789+/"
		for len(b) < n {
			b = append(b, a[r.Intn(64)])
		}
		if n > 4 {
			b[n-1] = '='
		}
	case "elfx86":
		b = elf(r, n, 62, false)
	case "elfarm64":
		b = elf(r, n, 183, false)
	case "elfbogus":
		b = elf(r, n, 62, true)
	case "pe":
		b = pe(r, n, false)
	case "pebogus":
		b = pe(r, n, true)
	case "machobogus":
		b = make([]byte, n)
		r.Fill(b)
		if n >= 4 {
			binary.BigEndian.PutUint32(b, []uint32{0xFEEDFACE, 0xCEFAEDFE, 0xFEEDFACF, 0xCFFAEDFE}[r.Intn(4)])
		}
		if n >= 64 && r.Intn(4) != 0 {
			// MH_EXECUTE with a load-command chain whose sizes/offsets are garbage
			binary.LittleEndian.PutUint32(b[12:], 2)
			binary.LittleEndian.PutUint32(b[0x10:], uint32([]int{1, 3, 50, 65535, 1 << 30}[r.Intn(5)]))
			pos := 0x1C + 4*r.Intn(2)
			for k := 0; k < 3 && pos+0x60 < n; k++ {
				binary.LittleEndian.PutUint32(b[pos:], uint32([]int{0x1, 0x19, 0x2}[r.Intn(3)]))
				sz := []int{0x38, 0x48, 0, n, n - pos - 3, 1 << 31, 0x7FFFFFFF}[r.Intn(7)]
				binary.LittleEndian.PutUint32(b[pos+4:], uint32(sz))
				if r.Intn(2) == 0 {
					copy(b[pos+8:], "__TEXT\x00\x00")
					copy(b[pos+0x38:], "__text\x00\x00")
					copy(b[pos+0x48:], "__text\x00\x00")
				}
				if sz <= 0 || sz > n {
					break
				}
				pos += sz
			}
		}
	case "wav":
		b = make([]byte, n)
		hdr := []byte("RIFF\x00\x00\x00\x00WAVEfmt \x10\x00\x00\x00\x01\x00\x02\x00\x44\xac\x00\x00\x10\xb1\x02\x00\x04\x00\x10\x00data\x00\x00\x00\x00")
		copy(b, hdr)
		ph1, ph2 := 0.0, 0.0
		for i := len(hdr); i+4 <= n; i += 4 {
			ph1 += 0.031
			ph2 += 0.0123
			l := int16(9000*math.Sin(ph1) + 3000*math.Sin(ph2*3) + float64(r.Intn(64)))
			rr := int16(8000*math.Sin(ph1+0.3) + 2000*math.Sin(ph2*5) + float64(r.Intn(64)))
			binary.LittleEndian.PutUint16(b[i:], uint16(l))
			binary.LittleEndian.PutUint16(b[i+2:], uint16(rr))
		}
	case "bmp", "ppm":
		b = make([]byte, n)
		off := 0
		if shape == "bmp" {
			hdr := make([]byte, 54)
			hdr[0], hdr[1] = 'B', 'M'
			binary.LittleEndian.PutUint32(hdr[2:], uint32(n))
			binary.LittleEndian.PutUint32(hdr[10:], 54)
			binary.LittleEndian.PutUint32(hdr[14:], 40)
			binary.LittleEndian.PutUint32(hdr[18:], 256)
			binary.LittleEndian.PutUint32(hdr[22:], 256)
			hdr[26], hdr[28] = 1, 24
			off = copy(b, hdr)
		} else {
			off = copy(b, "P6\n256 256\n255\n")
		}
		w := 256 * 3
		for i := off; i < n; i++ {
			x, y := (i-off)%w, (i-off)/w
			v := 128 + 60*math.Sin(float64(x)/47.0) + 50*math.Cos(float64(y)/31.0) + float64(r.Intn(5))
			b[i] = byte(int(v) + (x%3)*7)
		}
	case "runs":
		for len(b) < n {
			c := byte(r.Intn(8) * 31)
			l := 1 + r.Intn(1+r.Intn(400))
			for k := 0; k < l; k++ {
				b = append(b, c)
			}
		}
	case "zeros":
		b = make([]byte, n)
	case "skewed":
		for len(b) < n {
			switch x := r.Intn(1000); {
			case x < 600:
				b = append(b, 'a')
			case x < 850:
				b = append(b, 'b')
			case x < 990:
				b = append(b, 'c')
			default:
				b = append(b, r.Byte())
			}
		}
	case "raredom":
		// k rare symbols (once or twice each) + m dominant symbols: stresses frequency scaling
		k := 1 + r.Intn(250)
		m := 1 + r.Intn(4)
		b = make([]byte, n)
		for i := range b {
			b[i] = byte(250 + r.Intn(m))
		}
		for s := 0; s < k && s < n; s++ {
			b[r.Intn(n)] = byte(s)
		}
	case "ramp255":
		b = make([]byte, n)
		for i := range b {
			b[i] = byte(i % 255)
		}
	case "ramp256":
		b = make([]byte, n)
		for i := range b {
			b[i] = byte(i)
		}
	case "smallalpha":
		a := 2 + r.Intn(3)
		b = make([]byte, n)
		for i := range b {
			b[i] = byte(65 + 40*zipf(r, a)%200)
		}
	case "periodic":
		p := 3 + r.Intn(200)
		pat := make([]byte, p)
		r.Fill(pat)
		b = make([]byte, n)
		for i := range b {
			b[i] = pat[i%p]
			if r.Intn(500) == 0 {
				b[i] ^= 1
			}
		}
	case "random":
		b = make([]byte, n)
		r.Fill(b)
	case "magicmix":
		// block starting with one of the magic numbers known to internal/Magic.go, then mixed content
		magics := [][]byte{{0xFF, 0xD8, 0xFF, 0xE0}, []byte("GIF8"), []byte("%PDF"), {0x50, 0x4B, 3, 4}, {0x37, 0x7A, 0xBC, 0xAF}, {0x89, 'P', 'N', 'G'},
			{0x28, 0xB5, 0x2F, 0xFD}, {0x81, 0xCF, 0xB2, 0xCE}, []byte("RIFF"), []byte("MSCF"), []byte("fLaC"), {0xFD, 0x37, 0x7A, 0x58}, []byte("Rar!"), []byte("KANZ"),
			[]byte("BZh9"), []byte("ID3\x03"), {0x1F, 0x8B, 8, 0}, []byte("BM\x00\x00"), []byte("MZ\x90\x00"), []byte("P4\n1"), []byte("P5\n1"), []byte("P6\n1")}
		mg := magics[r.Intn(len(magics))]
		inner := []string{"text", "random", "runs", "wav", "skewed"}[r.Intn(5)]
		b = Make(inner, n, seed+7)
		copy(b, mg)
	case "repeatblocks":
		// long-distance repeats (LZ / ROLZ matches at large offsets)
		unit := Make("text", min(n, 1+r.Intn(5000)), seed+3)
		for len(b) < n {
			b = append(b, unit...)
			if r.Intn(3) == 0 {
				x := make([]byte, r.Intn(300))
				r.Fill(x)
				b = append(b, x...)
			}
		}
	case "sorted":
		b = make([]byte, n)
		for i := range b {
			b[i] = byte(i * 256 / max(n, 1))
		}
	default:
		panic("unknown shape " + shape)
	}
	if len(b) > n {
		b = b[:n]
	}
	for len(b) < n {
		b = append(b, ' ')
	}
	return b
}

func zipf(r *core.Rng, n int) int {
	// cheap skewed index in [0,n)
	f := r.Float()
	v := int(float64(n) * f * f * f)
	if v >= n {
		v = n - 1
	}
	return v
}

func appendRune(b []byte, c rune) []byte { return append(b, string(c)...) }

// elf builds a 64-bit little-endian ELF image with a section table (valid or garbage offsets)
func elf(r *core.Rng, n int, machine uint16, bogus bool) []byte {
	b := make([]byte, n)
	code(r, b, machine)
	if n < 64 {
		if n >= 4 {
			copy(b, "\x7fELF")
		}
		return b
	}
	copy(b, "\x7fELF")
	b[4], b[5], b[6] = 2, 1, 1 // 64-bit, LE
	binary.LittleEndian.PutUint16(b[16:], 2)
	binary.LittleEndian.PutUint16(b[18:], machine)
	binary.LittleEndian.PutUint32(b[20:], 1)
	nsec := 4
	cut := r.Intn(3) == 0
	shoff := uint64(n - nsec*64 - 8)
	if n < 64+nsec*64+64 {
		shoff = 64
	}
	binary.LittleEndian.PutUint64(b[0x28:], shoff)
	binary.LittleEndian.PutUint16(b[0x3A:], 64)
	binary.LittleEndian.PutUint16(b[0x3C:], uint16(nsec))
	if bogus {
		switch r.Intn(5) {
		case 0:
			binary.LittleEndian.PutUint64(b[0x28:], r.U64())
		case 1:
			binary.LittleEndian.PutUint64(b[0x28:], 0xFFFFFFFFFFFFFF00)
		case 2:
			binary.LittleEndian.PutUint16(b[0x3C:], 0xFFFF)
		case 3:
			binary.LittleEndian.PutUint16(b[0x3A:], uint16(r.Intn(65536)))
		default:
			r.Fill(b[16:64])
		}
		return b
	}
	for s := 0; s < nsec && int(shoff)+(s+1)*64 <= n; s++ {
		sh := b[int(shoff)+s*64:]
		binary.LittleEndian.PutUint32(sh[4:], 1) // SHT_PROGBITS
		binary.LittleEndian.PutUint64(sh[8:], 6) // ALLOC|EXEC
		binary.LittleEndian.PutUint64(sh[24:], uint64(64+s*(n/8)))
		binary.LittleEndian.PutUint64(sh[32:], uint64(n/8))
		if s == nsec-1 && cut {
			// the last code section runs up to / beyond the end of the block (an executable cut into blocks)
			binary.LittleEndian.PutUint64(sh[32:], uint64(n))
		}
	}
	return b
}

func pe(r *core.Rng, n int, bogus bool) []byte {
	b := make([]byte, n)
	code(r, b, 62)
	if n < 2 {
		return b
	}
	b[0], b[1] = 'M', 'Z'
	if n < 0x200 {
		return b
	}
	binary.LittleEndian.PutUint32(b[0x3C:], 0x80)
	copy(b[0x80:], "PE\x00\x00")
	binary.LittleEndian.PutUint16(b[0x84:], 0x8664)
	binary.LittleEndian.PutUint16(b[0x86:], 2) // sections
	binary.LittleEndian.PutUint16(b[0x94:], 0xF0)
	binary.LittleEndian.PutUint16(b[0x98:], 0x20B)
	binary.LittleEndian.PutUint32(b[0x9C:], uint32(n/2)) // size of code
	binary.LittleEndian.PutUint32(b[0xAC:], 0x400)       // base of code
	if bogus {
		switch r.Intn(4) {
		case 0:
			binary.LittleEndian.PutUint32(b[0x3C:], uint32(r.U64()))
		case 1:
			binary.LittleEndian.PutUint32(b[0x9C:], 0xFFFFFFF0)
		case 2:
			binary.LittleEndian.PutUint32(b[0xAC:], 0xFFFFFFF0)
		default:
			r.Fill(b[0x80:0x180])
		}
	}
	return b
}

// code fills b with something resembling machine code (call/jmp density for x86, bl for arm64)
func code(r *core.Rng, b []byte, machine uint16) {
	n := len(b)
	if machine == 183 {
		for i := 0; i+4 <= n; i += 4 {
			var ins uint32
			switch r.Intn(5) {
			case 0:
				ins = 0x94000000 | uint32(r.Intn(1<<16)) // bl
			case 1:
				ins = 0x14000000 | uint32(r.Intn(1<<12)) // b
			default:
				ins = 0x91000000 | uint32(r.Intn(1<<20))
			}
			binary.LittleEndian.PutUint32(b[i:], ins)
		}
		return
	}
	for i := 0; i < n; {
		switch r.Intn(6) {
		case 0:
			if i+5 <= n {
				b[i] = 0xE8
				disp := uint32(int32(r.Intn(1<<16) - 1<<15))
				if r.Intn(12) == 0 {
					// boundary displacements of the jump converter (sign byte 00 / FF, escape value)
					disp = []uint32{0xFF000000, 0x00FFFFFF, 0xFFFFFFFF, 0xFF000001, 0x01000000, 0, 0x00000001, 0xFEFFFFFF, 0x80000000, 0x7FFFFFFF}[r.Intn(10)]
				}
				binary.LittleEndian.PutUint32(b[i+1:], disp)
				i += 5
				continue
			}
		case 1:
			if i+5 <= n {
				b[i] = 0xE9
				disp := uint32(r.Intn(1 << 14))
				if r.Intn(12) == 0 {
					disp = []uint32{0xFF000000, 0x00FFFFFF, 0xFFFFFFFF, 0xFF000001, 0x01000000, 0xFFFFFF00}[r.Intn(6)]
				}
				binary.LittleEndian.PutUint32(b[i+1:], disp)
				i += 5
				continue
			}
		case 2:
			if i+6 <= n {
				b[i], b[i+1] = 0x0F, byte(0x80+r.Intn(16))
				disp := uint32(r.Intn(1 << 12))
				if r.Intn(12) == 0 {
					disp = []uint32{0xFF000000, 0x00FFFFFF, 0xFFFFFFFF, 0xFF000001}[r.Intn(4)]
				}
				binary.LittleEndian.PutUint32(b[i+2:], disp)
				i += 6
				continue
			}
		}
		b[i] = []byte{0x48, 0x89, 0x8B, 0x55, 0xC3, 0x90, 0x00, 0xFF, 0x45, 0x24}[r.Intn(10)]
		i++
	}
}

// Sizes is the ladder of lengths straddling the thresholds found in the code.
var Sizes = []int{0, 1, 2, 15, 16, 17, 32, 33, 63, 64, 65, 255, 256, 257, 512, 1023, 1024, 1025, 4095, 4096, 4097,
	16383, 16384, 16385, 20000, 32767, 32768, 32769, 65535, 65536, 65537, 100000, 262143, 262144, 262145}
