package gen

import "testing"

// every shape must produce exactly n bytes for every small n (and not panic)
func TestShapesAllSizes(t *testing.T) {
	for _, sh := range Shapes {
		for n := 0; n < 70; n++ {
			if b := Make(sh, n, 1); len(b) != n {
				t.Fatalf("%s n=%d -> %d bytes", sh, n, len(b))
			}
		}
		for _, n := range []int{255, 1024, 4097, 70000} {
			if b := Make(sh, n, 2); len(b) != n {
				t.Fatalf("%s n=%d -> %d bytes", sh, n, len(b))
			}
		}
	}
}
