// vcheck: one binary, one sub-command per property.
//
//	vcheck <ID> <quick|thorough> [--replay file]
//	vcheck child <handler>          (internal: isolated case runner)
package main

import (
	"fmt"
	"os"

	"verifharness/checks"
	"verifharness/core"
	"verifharness/gen"
)

func main() {
	if len(os.Args) >= 3 && os.Args[1] == "child" {
		core.ChildMain(os.Args[2])
		return
	}
	if len(os.Args) >= 2 && os.Args[1] == "corpus-gen" {
		if err := checks.CorpusGen(); err != nil {
			fmt.Fprintln(os.Stderr, err)
			os.Exit(1)
		}
		return
	}
	if len(os.Args) >= 5 && os.Args[1] == "gen" {
		// vcheck gen <shape> <size> <seed>: dump a generated input to stdout (debugging aid)
		var n int
		var seed int64
		fmt.Sscan(os.Args[3], &n)
		fmt.Sscan(os.Args[4], &seed)
		os.Stdout.Write(gen.Make(os.Args[2], n, seed))
		return
	}
	if len(os.Args) < 2 {
		fmt.Fprintln(os.Stderr, "usage: vcheck <ID> <quick|thorough> [--replay file]")
		os.Exit(3)
	}
	id := os.Args[1]
	tier := ""
	replay := ""
	for i := 2; i < len(os.Args); i++ {
		switch os.Args[i] {
		case "--replay":
			if i+1 < len(os.Args) {
				replay = os.Args[i+1]
				i++
			}
		case "quick", "thorough":
			tier = os.Args[i]
		}
	}
	f := checks.Registry[id]
	if f == nil {
		fmt.Fprintf(os.Stderr, "unknown check %s\n", id)
		os.Exit(3)
	}
	run := core.NewRun(id, checks.Levels[id], tier)
	if replay != "" {
		run.SetReplayMode()
	}
	f(run, replay)
	os.Exit(run.Finish())
}
