// Package checks holds one monitor/workload per property.
package checks

import "verifharness/core"

// Registry maps a property id to its check
var Registry = map[string]func(run *core.Run, replay string){}

// Levels maps a property id to its claimed level
var Levels = map[string]string{}

func register(id, level string, f func(run *core.Run, replay string)) {
	Registry[id] = f
	Levels[id] = level
}
