package checks

import (
	"bytes"
	"fmt"

	"github.com/flanglet/kanzi-go/v2/hash"

	"verifharness/container"
	"verifharness/core"
	"verifharness/kz"
)

// C02, the width of the comparison: random damage cannot tell whether all the bits of the stored checksum take part in the
// verdict (a 64-bit checksum compared on 32 bits still rejects 1 - 2^-32 of the damage). This probe BUILDS two blocks of equal
// length whose checksums agree on one half of their bits and differ on the other (a birthday search over a few hundred thousand
// variants, hashes computed with the library's own hash functions), writes the first one and substitutes the second one inside
// the payload: the stored checksum is the first block's, so an exact comparison must report the block.

type halfProbe struct {
	CkSize uint   `json:"checksum"`
	Half   string `json:"half"` // lo | hi: the half of the checksum on which the two blocks agree
	Seed   int64  `json:"seed"`
	Jobs   uint   `json:"jobs"`
}

const kanziHashSeed = 0x4B414E5A // the stream type: seed of the block hashers (see the reader's header parsing)

func blockHash(ck uint, b []byte) uint64 {
	if ck == 32 {
		h, _ := hash.NewXXHash32(kanziHashSeed)
		return uint64(h.Hash(b))
	}
	h, _ := hash.NewXXHash64(kanziHashSeed)
	return h.Hash(b)
}

func runHalfProbe(p *halfProbe) (kind, detail string, ok bool) {
	r := core.Derive(p.Seed, "c02probe", p.CkSize, p.Half)
	base := []byte(fmt.Sprintf("record %08d; a block of ordinary text whose checksum is going to collide on one half; ref=", r.Intn(1e8)))
	n := len(base) + 8
	half := func(h uint64) uint64 {
		w := uint(p.CkSize / 2)
		if p.Half == "lo" {
			return h & (1<<w - 1)
		}
		return (h >> w) & (1<<w - 1)
	}
	seen := map[uint64][]byte{}
	var A, B []byte
	for i := 0; i < 3000000 && A == nil; i++ {
		v := make([]byte, n)
		copy(v, base)
		x := r.U64()
		for k := 0; k < 8; k++ {
			v[len(base)+k] = byte('A' + (x>>(5*uint(k)))%26)
		}
		h := blockHash(p.CkSize, v)
		k := half(h)
		if prev, ok := seen[k]; ok && !bytes.Equal(prev, v) && blockHash(p.CkSize, prev) != h {
			A, B = prev, v
		} else {
			seen[k] = v
		}
	}
	if A == nil {
		return "", "", false // no pair found (astronomically unlikely): nothing to probe
	}
	stream, _, err := kz.Compress(A, kz.Cfg{Transform: "NONE", Entropy: "NONE", BlockSize: 1024, Jobs: 1, Checksum: p.CkSize}, nil)
	if err != nil {
		return "", "", false
	}
	ps, perr := container.Parse(stream)
	if perr != nil || len(ps.Blocks) != 1 || ps.Blocks[0].DataLen < 8*n {
		return "harness", fmt.Sprint("cannot locate the block data: ", perr), true
	}
	in := append([]byte(nil), stream...)
	for i := 0; i < n; i++ {
		container.SetBits(in, ps.Blocks[0].DataOff+8*i, 8, uint64(B[i]))
	}
	rr := kz.Decompress(in, p.Jobs, nil)
	if rr.Err == nil && !bytes.Equal(rr.Out, A) {
		return "partial-checksum-comparison", fmt.Sprintf("checksum %d: a block whose %d-bit checksum %x agrees with the stored one %x only on its %s half was accepted: %q read as a success instead of %q",
			p.CkSize, p.CkSize, blockHash(p.CkSize, B), blockHash(p.CkSize, A), p.Half, rr.Out, A), true
	}
	if len(rr.Out) > 0 && !bytes.Equal(rr.Out, A[:min(len(rr.Out), len(A))]) {
		return "wrong-bytes-before-error", fmt.Sprintf("%q returned before the error", rr.Out), true
	}
	return "", "", true
}
