package checks

import (
	"fmt"
	"sort"
	"time"

	"github.com/anishathalye/porcupine"
	kio "github.com/flanglet/kanzi-go/v2/io"

	"verifharness/sched"
)

// Offline linearizability check of a free-running hand-off history against a ticket lock with cancellation.

type tkIn struct {
	Op string // acquire | release | cancel
	ID int32
}

type tkState struct {
	Next      int32
	Held      int32
	Cancelled bool
}

var ticketModel = porcupine.Model{
	Init: func() interface{} { return tkState{Next: -1} },
	Step: func(st, in, out interface{}) (bool, interface{}) {
		s := st.(tkState)
		i := in.(tkIn)
		o := out.(string)
		switch i.Op {
		case "first":
			s.Next = i.ID
			return true, s
		case "acquire":
			switch o {
			case "ok":
				if s.Cancelled || s.Held != 0 || i.ID != s.Next {
					return false, s
				}
				s.Held = i.ID
				return true, s
			case "cancelled":
				return s.Cancelled, s
			default: // never returned (task died while waiting): no effect
				return true, s
			}
		case "release":
			if s.Held != i.ID {
				return false, s
			}
			s.Held = 0
			s.Next = i.ID + 1
			return true, s
		case "cancel":
			s.Cancelled = true
			if s.Held == i.ID {
				s.Held = 0
			}
			return true, s
		}
		return false, s
	},
	DescribeOperation: func(in, out interface{}) string {
		i := in.(tkIn)
		return fmt.Sprintf("%s(%d)->%v", i.Op, i.ID, out)
	},
}

// checkTicketHistory returns ("ok"|"illegal"|"unknown"|"empty", detail)
func checkTicketHistory(ev []sched.Event) (string, string) {
	byTask := map[int32][]sched.Event{}
	var ids []int32
	maxSeq := int64(0)
	for _, e := range ev {
		if _, ok := byTask[e.ID]; !ok {
			ids = append(ids, e.ID)
		}
		byTask[e.ID] = append(byTask[e.ID], e)
		if e.Seq > maxSeq {
			maxSeq = e.Seq
		}
	}
	if len(ids) == 0 {
		return "empty", ""
	}
	sort.Slice(ids, func(a, b int) bool { return ids[a] < ids[b] })
	var ops []porcupine.Operation
	// the counter starts at firstID-1: model it as an operation that precedes everything
	ops = append(ops, porcupine.Operation{ClientId: 0, Input: tkIn{"first", ids[0]}, Call: -2, Output: "", Return: -1})
	for ci, id := range ids {
		evs := byTask[id]
		client := ci + 1
		var waitSeq, prev int64 = -1, 0
		acquired := false
		released := false
		for _, e := range evs {
			switch e.Step {
			case kio.VerifWaitEnter:
				waitSeq = e.Seq
			case kio.VerifAcquired:
				if waitSeq >= 0 {
					ops = append(ops, porcupine.Operation{ClientId: client, Input: tkIn{"acquire", id}, Call: waitSeq, Output: "ok", Return: e.Seq})
					waitSeq = -1
					acquired = true
				}
			case kio.VerifCancelSeen:
				if waitSeq >= 0 {
					ops = append(ops, porcupine.Operation{ClientId: client, Input: tkIn{"acquire", id}, Call: waitSeq, Output: "cancelled", Return: e.Seq})
					waitSeq = -1
				}
			case kio.VerifPublish:
				// the first publish after the shared section is the release (the deferred handler may publish again: no-op)
				if acquired && !released {
					ops = append(ops, porcupine.Operation{ClientId: client, Input: tkIn{"release", id}, Call: prev, Output: "", Return: e.Seq})
					released = true
				}
			case kio.VerifCancelStored:
				ops = append(ops, porcupine.Operation{ClientId: client, Input: tkIn{"cancel", id}, Call: prev, Output: "", Return: e.Seq})
			}
			prev = e.Seq
		}
		if waitSeq >= 0 {
			// never returned from the wait (task died there): open until the end of the history
			ops = append(ops, porcupine.Operation{ClientId: client, Input: tkIn{"acquire", id}, Call: waitSeq, Output: "open", Return: maxSeq + 1})
		}
	}
	res, info := porcupine.CheckOperationsVerbose(ticketModel, ops, 20*time.Second)
	switch res {
	case porcupine.Ok:
		return "ok", ""
	case porcupine.Unknown:
		return "unknown", ""
	}
	_ = info
	// witness: list the operations in call order
	sort.Slice(ops, func(a, b int) bool { return ops[a].Call < ops[b].Call })
	d := "history rejected by the ticket-lock model: "
	for i, o := range ops {
		if i > 40 {
			d += "..."
			break
		}
		d += fmt.Sprintf("[%d,%d]%s ", o.Call, o.Return, ticketModel.DescribeOperation(o.Input, o.Output))
	}
	return "illegal", d
}
