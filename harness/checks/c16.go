package checks

import (
	"fmt"
	"sync"
	"sync/atomic"

	"github.com/flanglet/kanzi-go/v2/entropy"

	"verifharness/core"
)

// C16: NormalizeFrequencies always yields a valid table.

type nfCase struct {
	Syms   []int  `json:"syms"`   // present symbols
	Counts []int  `json:"counts"` // their counts
	Scale  int    `json:"scale"`
	Tag    string `json:"tag"`
	// Compact: the caller passes slices of exactly len(Syms) entries holding the counts in symbol order (as HuffmanEncoder
	// does for its code length limiter), instead of 256-entry tables
	Compact bool `json:"compact,omitempty"`
}

// nfVerdict checks the post-condition. size < 0 means "return value not observable" (in situ hook).
func nfVerdict(before, after, alphabet []int, total, scale, size int, err error) (kind, detail string) {
	if err != nil {
		return "error", err.Error()
	}
	present := 0
	sum := 0
	for i, f := range before {
		if f != 0 {
			present++
			if after[i] <= 0 {
				return "present-symbol-lost", fmt.Sprintf("symbol %d had count %d, scaled to %d (scale %d, total %d)", i, f, after[i], scale, total)
			}
			sum += after[i]
		} else if after[i] != 0 {
			return "absent-symbol-nonzero", fmt.Sprintf("absent symbol %d got frequency %d", i, after[i])
		}
	}
	if sum != scale {
		d := "under"
		if sum > scale {
			d = "over"
		}
		return "sum-not-scale-" + d, fmt.Sprintf("sum of scaled frequencies %d != scale %d (%d present symbols, total %d)", sum, scale, present, total)
	}
	if size >= 0 && size != present {
		return "alphabet-size", fmt.Sprintf("returned %d, %d symbols present", size, present)
	}
	k := 0
	for i, f := range before {
		if f != 0 {
			if k >= len(alphabet) || alphabet[k] != i {
				return "alphabet-order", fmt.Sprintf("alphabet[%d] should be %d", k, i)
			}
			k++
		}
	}
	return "", ""
}

func runNfCase(c *nfCase) (kind, detail string) {
	if c.Compact {
		n := len(c.Syms)
		freqs := make([]int, n, 256)
		alphabet := make([]int, n, 256)
		total := 0
		for i := range c.Syms {
			freqs[i] = c.Counts[i]
			total += c.Counts[i]
		}
		before := append([]int(nil), freqs...)
		var size int
		var err error
		if p := catch(func() { size, err = entropy.NormalizeFrequencies(freqs, alphabet, total, c.Scale) }); p != nil {
			return "panic", fmt.Sprintf("NormalizeFrequencies on %d-entry slices (total %d, scale %d): %v", n, total, c.Scale, p)
		}
		return nfVerdict(before, freqs, alphabet, total, c.Scale, size, err)
	}
	var freqs [256]int
	var alphabet [256]int
	total := 0
	for i, s := range c.Syms {
		freqs[s] += c.Counts[i]
		total += c.Counts[i]
	}
	before := freqs
	var size int
	var err error
	if p := catch(func() { size, err = entropy.NormalizeFrequencies(freqs[:], alphabet[:], total, c.Scale) }); p != nil {
		return "panic", fmt.Sprint(p)
	}
	return nfVerdict(before[:], freqs[:], alphabet[:], total, c.Scale, size, err)
}

// In situ monitor state (installed by C01/C12/C16 workloads through the H3 hook)
var nfSituCalls, nfSituChecked, nfSituSlow, nfSituCompact int64
var nfSituMu sync.Mutex
var nfSituViol []nfSitu

type nfSitu struct {
	Kind, Detail string
	Case         nfCase
}

// installNormalizeMonitor hooks every NormalizeFrequencies call made by any workload of this process
func installNormalizeMonitor() {
	entropy.SetVerifNormalizeHook(func(before, after, alphabet []int, totalFreq, scale int) {
		atomic.AddInt64(&nfSituCalls, 1)
		if len(before) < 256 {
			atomic.AddInt64(&nfSituCompact, 1) // the Huffman code length limiter's slow path (slices of k < 256 entries)
		}
		if scale < 256 || scale > 65536 || len(alphabet) == 0 || totalFreq == 0 {
			return
		}
		sum, present := 0, 0
		for _, f := range before {
			if f < 0 {
				return
			}
			sum += f
			if f != 0 {
				present++
			}
		}
		if sum != totalFreq || present > scale || present == 0 {
			return // outside the function's contract (totalFreq must be the histogram total)
		}
		atomic.AddInt64(&nfSituChecked, 1)
		if totalFreq != scale {
			atomic.AddInt64(&nfSituSlow, 1)
		}
		if k, d := nfVerdict(before, after, alphabet, totalFreq, scale, -1, nil); k != "" {
			c := nfCase{Scale: scale, Tag: "in-situ"}
			for i, f := range before {
				if f != 0 {
					c.Syms = append(c.Syms, i)
					c.Counts = append(c.Counts, f)
				}
			}
			nfSituMu.Lock()
			if len(nfSituViol) < 20 {
				nfSituViol = append(nfSituViol, nfSitu{k, d, c})
			}
			nfSituMu.Unlock()
		}
	})
}

// reportNormalizeMonitor folds the in-situ observations into a run (as C16-signature violations of `run`)
func reportNormalizeMonitor(run *core.Run) {
	run.Count("insitu_normalize_calls", int(atomic.LoadInt64(&nfSituCalls)))
	run.Count("insitu_normalize_checked", int(atomic.LoadInt64(&nfSituChecked)))
	run.Count("insitu_normalize_rescaled", int(atomic.LoadInt64(&nfSituSlow)))
	run.Count("insitu_normalize_calls_from_huffman_length_limiter", int(atomic.LoadInt64(&nfSituCompact)))
	nfSituMu.Lock()
	defer nfSituMu.Unlock()
	for _, v := range nfSituViol {
		run.Violate("C16 "+v.Kind, "in situ (histogram produced by a codec workload): "+v.Detail, v.Case)
	}
}

func c16(run *core.Run, replay string) {
	run.SetRule("direct calls of entropy.NormalizeFrequencies on 256-entry histograms: exhaustive over all histograms with <=3 present symbols and counts <=40 (quick: <=24) x 9 scales; " +
		"directed families (k rare + m dominant at many totals, flat around the scale, ramps, two-level); random; " +
		"non-trivial = at least 2 present symbols and total != scale (the rescaling paths run); distinct = distinct (histogram, scale)")
	check := func(c *nfCase) {
		k, d := runNfCase(c)
		run.Eval(1)
		total := 0
		for _, x := range c.Counts {
			total += x
		}
		if len(c.Syms) >= 2 && total != c.Scale {
			run.Nontrivial(fmt.Sprint(c.Syms, c.Counts, c.Scale))
		}
		if k != "" {
			run.Violate("C16 "+k, fmt.Sprintf("[%s] %s", c.Tag, d), c)
		}
	}
	if replay != "" {
		var c nfCase
		if err := core.LoadReplay(replay, &c); err != nil {
			run.Violate("C16 replay-unreadable", err.Error(), nil)
			return
		}
		check(&c)
		return
	}
	scales := []int{256, 512, 1024, 2048, 4096, 8192, 16384, 32768, 65536}
	var cases []*nfCase
	add := func(tag string, syms, counts []int, scale int) {
		cases = append(cases, &nfCase{Syms: append([]int{}, syms...), Counts: append([]int{}, counts...), Scale: scale, Tag: tag})
	}
	// exhaustive small
	maxc := run.Pick(24, 40)
	for _, sc := range scales {
		for a := 1; a <= maxc; a++ {
			add("exh1", []int{7}, []int{a}, sc)
			for b := 1; b <= maxc; b++ {
				add("exh2", []int{0, 255}, []int{a, b}, sc)
				for c := 1; c <= maxc; c++ {
					add("exh3", []int{3, 100, 254}, []int{a, b, c}, sc)
				}
			}
		}
	}
	run.SetExtra("exhaustive_part", fmt.Sprintf("all histograms with 1..3 present symbols, counts 1..%d, 9 scales", maxc))
	// directed: k rare + m dominant
	r := core.Derive(run.Seed, "c16")
	ks := []int{0, 1, 2, 3, 5, 8, 13, 21, 34, 55, 89, 100, 128, 200, 240, 250, 251, 252, 253, 254, 255}
	if run.Thorough() {
		ks = nil
		for k := 0; k <= 255; k++ {
			ks = append(ks, k)
		}
	}
	for _, sc := range scales {
		for _, k := range ks {
			for m := 1; m <= 8 && k+m <= 256; m++ {
				for _, rare := range []int{1, 2, 3, 5} {
					for _, domTotal := range []int{1, 2, 7, 50, sc / 2, sc - k, sc, sc + k + 1, 3 * sc, 100000, 1 << 20, 1<<27 - 6*256} {
						if domTotal < m {
							continue
						}
						for _, equal := range []bool{true, false} {
							var syms, counts []int
							for i := 0; i < k; i++ {
								syms = append(syms, i)
								counts = append(counts, rare)
							}
							rem := domTotal
							for j := 0; j < m; j++ {
								c := domTotal / m
								if !equal {
									c = rem/2 + 1
									if j == m-1 {
										c = rem
									}
								}
								if c < 1 {
									c = 1
								}
								if c > rem && j == m-1 {
									c = max(rem, 1)
								}
								rem -= c
								if rem < m-j-1 {
									rem = m - j - 1
								}
								syms = append(syms, 255-j)
								counts = append(counts, c)
							}
							if !run.Thorough() && r.Intn(3) != 0 {
								continue
							}
							add("raredom", syms, counts, sc)
						}
					}
				}
			}
		}
		// flat histograms around the scale
		for _, n := range []int{2, 3, 16, 64, 255, 256} {
			for d := -300; d <= 300; d += run.Pick(7, 1) {
				tot := sc + d
				if tot < n {
					continue
				}
				var syms, counts []int
				for i := 0; i < n; i++ {
					syms = append(syms, i*(256/n))
					c := tot / n
					if i < tot%n {
						c++
					}
					counts = append(counts, c)
				}
				add("flat", syms, counts, sc)
			}
		}
		// ramps and two-level
		for _, n := range []int{2, 10, 100, 255, 256} {
			var syms, counts, counts2 []int
			for i := 0; i < n; i++ {
				syms = append(syms, i)
				counts = append(counts, i+1)
				if i%2 == 0 {
					counts2 = append(counts2, 1)
				} else {
					counts2 = append(counts2, 1000)
				}
			}
			add("ramp", syms, counts, sc)
			add("twolevel", syms, counts2, sc)
		}
	}
	// random
	nr := run.Pick(100000, 2000000)
	for i := 0; i < nr; i++ {
		rr := core.Derive(run.Seed, "c16r", i)
		n := 1 + rr.Intn(256)
		if rr.Intn(3) == 0 {
			n = 1 + rr.Intn(12)
		}
		perm := rr.Intn(256)
		var syms, counts []int
		budget := 1 << 27
		for j := 0; j < n; j++ {
			var c int
			switch rr.Intn(5) {
			case 0:
				c = 1
			case 1:
				c = 1 + rr.Intn(4)
			case 2:
				c = 1 + rr.Intn(300)
			case 3:
				c = 1 + rr.Intn(70000)
			default:
				c = 1 + rr.Intn(1<<uint(rr.Intn(22)))
			}
			if c > budget-(n-j) {
				c = 1
			}
			budget -= c
			syms = append(syms, (perm+j)%256)
			counts = append(counts, c)
		}
		add("random", syms, counts, scales[rr.Intn(len(scales))])
	}
	// the same function called with slices shorter than 256 entries (k symbols 0..k-1), totals below / equal to / above the scale
	for _, sc := range scales {
		for _, k := range []int{1, 2, 3, 18, 100, 255} {
			for _, tot := range []int{sc - 1, sc, sc + 1, 3 * sc, max(k, sc/3)} {
				if tot < k {
					continue
				}
				for v := 0; v < 3; v++ {
					rr := core.Derive(run.Seed, "c16c", sc, k, tot, v)
					var syms, counts []int
					rem := tot
					for j := 0; j < k; j++ {
						c := 1
						if j == k-1 {
							c = rem
						} else if rem-(k-j-1) > 1 {
							c = 1 + rr.Intn(max(1, (rem-(k-j-1))/(1+v)))
						}
						rem -= c
						syms = append(syms, j)
						counts = append(counts, c)
					}
					cases = append(cases, &nfCase{Syms: syms, Counts: counts, Scale: sc, Tag: "compact", Compact: true})
				}
			}
		}
	}
	core.ParallelDo(len(cases), 0, func(i int) { check(cases[i]) })
	byTag := map[string]int{}
	for _, c := range cases {
		byTag[c.Tag]++
	}
	run.SetExtra("cases_by_family", byTag)
	for i := 0; i < 6; i++ {
		c := cases[(i*104729+len(cases)/2)%len(cases)]
		run.Sample(c)
	}
}

func init() { register("C16", "exploration", c16) }
