package checks

import (
	"bytes"
	"encoding/json"
	"fmt"
	"io"
	"time"

	kio "github.com/flanglet/kanzi-go/v2/io"

	"verifharness/container"
	"verifharness/core"
	"verifharness/gen"
	"verifharness/kz"
	"verifharness/sched"
)

// protoScenario is one controlled / free-running execution family of the hand-off protocol
type protoScenario struct {
	Side     string      `json:"side"`   // enc | dec
	Tasks    int         `json:"tasks"`  // job count (tasks per batch)
	Blocks   int         `json:"blocks"` // blocks in the stream
	BlockSz  uint        `json:"block_size"`
	Shape    string      `json:"shape"`
	Cfg      [2]string   `json:"codec"` // transform, entropy
	Checksum uint        `json:"checksum"`
	Hint     bool        `json:"hint"`
	Fault    sched.Fault `json:"fault"`
	SinkFail int         `json:"sink_fail_at,omitempty"`  // enc: k-th sink write fails (0 = none)
	Damage   int         `json:"damaged_block,omitempty"` // dec: block whose payload is damaged (natural late failure), 0 = none
	DamageHd bool        `json:"damage_stored_length,omitempty"`
	From     int         `json:"from,omitempty"`
	To       int         `json:"to,omitempty"`
	Mode     string      `json:"mode"`  // dfs | pct | free
	Bound    int         `json:"bound"` // dfs: preemption bound (-1 = unbounded)
	Runs     int         `json:"runs"`  // pct/free: number of schedules; dfs: cap
	Seed     int64       `json:"seed"`
	Prefix   []int       `json:"prefix,omitempty"`    // replay of one dfs schedule
	Listen   bool        `json:"listeners,omitempty"` // attach a block listener (verbosity 5)
}

type protoViolation struct {
	Kind   string        `json:"kind"`
	Detail string        `json:"detail"`
	Sched  protoScenario `json:"scenario"` // with Prefix / Seed set so that the single execution can be replayed
	Trace  []string      `json:"trace,omitempty"`
}

type protoSummary struct {
	Executions  int              `json:"executions"`
	Orders      []uint64         `json:"order_hashes"`
	FaultFired  int              `json:"fault_fired"`
	Events      map[string]int   `json:"events"`
	Violations  []protoViolation `json:"violations"`
	Exhausted   bool             `json:"exhausted"`
	SampleTrace []string         `json:"sample_trace,omitempty"`
	Histories   int              `json:"histories_checked"`
	PorcUnknown int              `json:"porcupine_unknown"`
	MaxOverlap  int              `json:"max_tasks_between_start_and_exit"`
	WallMs      int64            `json:"wall_ms"`
}

type protoOutcome struct {
	events   []sched.Event
	stuck    bool
	stuckWhy string
	apiErr   error // first error returned by the API call(s)
	panicked any
	out      []byte // enc: sink bytes; dec: everything Read returned
	afterErr []byte
	eof      bool
	fired    bool
	// enc: the API call during which the failure happened returned nil (the tasks of a batch are joined before the call returns,
	// so a failure that has fired when Write returns belongs to that Write)
	notEnclosing string
}

// runner executes f under the chosen scheduler
type runner interface {
	Run(f func()) []sched.Event
}

func traceStrings(ev []sched.Event, maxN int) []string {
	var s []string
	for i, e := range ev {
		if i >= maxN {
			s = append(s, fmt.Sprintf("... %d more", len(ev)-maxN))
			break
		}
		s = append(s, e.String())
	}
	return s
}

// protoInputs builds (cached) the data and, for the decode side, the stream
func protoInputs(sc *protoScenario) (data, stream []byte, err error) {
	r := recipe{Name: "proto", Cfg: kz.Cfg{Transform: sc.Cfg[0], Entropy: sc.Cfg[1], BlockSize: sc.BlockSz, Jobs: 1, Checksum: sc.Checksum}, Shape: sc.Shape, Size: sc.Blocks*int(sc.BlockSz) - int(sc.BlockSz)/3, Seed: sc.Seed%7 + 1}
	if sc.Hint {
		r.Cfg.Hint = -1
	}
	if sc.Side == "enc" && sc.Blocks%sc.Tasks == 0 {
		r.Size = sc.Blocks * int(sc.BlockSz) // full batches only: every batch has exactly `tasks` tasks
	}
	data, stream, err = r.build()
	if err != nil || sc.Side == "enc" || (sc.Damage == 0) {
		return
	}
	ps, perr := container.Parse(stream)
	if perr != nil || sc.Damage > len(ps.Blocks) {
		return data, stream, fmt.Errorf("cannot damage block %d: %v", sc.Damage, perr)
	}
	b := ps.Blocks[sc.Damage-1]
	stream = append([]byte(nil), stream...)
	if sc.DamageHd {
		container.SetBits(stream, b.PayloadOff+8+boolInt(b.HasSkip)*8, 8*b.DataSize, 0) // stored length := 0 => fails right after the shared read
	} else {
		bit := b.DataOff + b.DataLen/2
		stream[bit>>3] ^= 0x10 // payload damage: detected by the checksum at the very end of the concurrent part
		bit = b.CkOff + 3
		if sc.Checksum > 0 {
			stream[bit>>3] ^= 1 << uint(7-bit&7)
		}
	}
	return
}

func boolInt(b bool) int {
	if b {
		return 1
	}
	return 0
}

// execOnce runs the API calls of the scenario once under the given scheduler
func execOnce(sc *protoScenario, data, stream []byte, rn runner, firedFn func() bool) (o protoOutcome) {
	switch sc.Side {
	case "enc":
		sink := &faultSink{failAt: sc.SinkFail}
		var w *kio.Writer
		var err error
		hint := int64(0)
		if sc.Hint {
			hint = int64(len(data))
		}
		if sc.Listen {
			w, err = kio.NewWriterWithCtx(sink, map[string]any{"transform": sc.Cfg[0], "entropy": sc.Cfg[1], "blockSize": sc.BlockSz, "jobs": uint(sc.Tasks),
				"checksum": sc.Checksum, "fileSize": hint, "headerless": false, "verbosity": uint(5)})
		} else {
			w, err = kio.NewWriter(sink, sc.Cfg[0], sc.Cfg[1], sc.BlockSz, uint(sc.Tasks), sc.Checksum, hint, false)
		}
		if err != nil {
			o.apiErr = err
			return
		}
		if sc.Listen {
			var n int64
			w.AddListener(atomicListener{&n})
		}
		o.events = rn.Run(func() {
			o.panicked = catch(func() {
				firedNow := func() bool { return sink.injected || (firedFn != nil && firedFn()) }
				_, e := w.Write(data)
				if e != nil && o.apiErr == nil {
					o.apiErr = e
				}
				duringWrite := firedNow()
				if duringWrite && e == nil {
					o.notEnclosing = "Write"
				}
				e = w.Close()
				if e != nil && o.apiErr == nil {
					o.apiErr = e
				}
				if !duringWrite && firedNow() && e == nil {
					o.notEnclosing = "Close"
				}
			})
		})
		o.out = sink.buf.Bytes()
		o.fired = sink.injected
	case "dec":
		ctx := map[string]any{"jobs": uint(sc.Tasks)}
		if sc.From > 0 {
			ctx["from"] = sc.From
		}
		if sc.To > 0 {
			ctx["to"] = sc.To
		}
		if sc.Listen {
			ctx["verbosity"] = uint(5)
		}
		r, err := kio.NewReaderWithCtx(&kz.Source{Data: stream}, ctx)
		if err != nil {
			o.apiErr = err
			return
		}
		if sc.Listen {
			var n int64
			r.AddListener(atomicListener{&n})
		}
		o.events = rn.Run(func() {
			o.panicked = catch(func() {
				buf := make([]byte, 3*int(sc.BlockSz)+17)
				extra := 6
				for calls := 0; calls < 10000; calls++ {
					n, e := r.Read(buf)
					if o.apiErr == nil {
						o.out = append(o.out, buf[:n]...)
					} else {
						o.afterErr = append(o.afterErr, buf[:n]...)
					}
					if e == io.EOF {
						o.eof = true
						break
					}
					if e != nil {
						if o.apiErr == nil {
							o.apiErr = e
						}
						extra--
						if extra <= 0 {
							break
						}
					}
				}
				r.Close()
			})
		})
	}
	if firedFn != nil && firedFn() {
		o.fired = true
	}
	return
}

// judge applies the trace monitor and the API-boundary oracle to one execution
func judge(sc *protoScenario, data []byte, baseline []byte, o *protoOutcome, strict bool, sum *protoSummary) (vs []protoViolation) {
	add := func(kind, format string, a ...any) {
		v := protoViolation{Kind: kind, Detail: fmt.Sprintf(format, a...), Sched: *sc, Trace: traceStrings(o.events, 120)}
		vs = append(vs, v)
	}
	m := sched.NewMonitor()
	m.Strict = strict
	live, maxLive := 0, 0
	for _, e := range o.events {
		m.Feed(e)
		if e.Step == kio.VerifStart {
			live++
			maxLive = max(maxLive, live)
		} else if e.Step == kio.VerifExit {
			live--
		}
		sum.Events[sched.StepName(e.Step)]++
	}
	sum.MaxOverlap = max(sum.MaxOverlap, maxLive)
	if !o.stuck {
		m.Finish()
	}
	for _, v := range m.Violations {
		add("trace:"+v.Kind, "%s", v.Detail)
	}
	if o.stuck {
		add("stuck", "%s", o.stuckWhy)
	}
	if o.panicked != nil {
		add("panic-escaped", "%v", o.panicked)
	}
	failureExpected := o.fired || (sc.Side == "dec" && sc.Damage > 0 && (sc.From == 0 || sc.Damage >= sc.From) && (sc.To == 0 || sc.Damage < sc.To))
	if failureExpected && o.apiErr == nil && !o.stuck {
		add("task-failure-not-reported", "a task failed (%s) but every API call returned nil/EOF", describeFailure(sc))
	}
	// "when any task fails, all others stop promptly": once the failing task has left (its Exit event), no other task may still
	// take the shared stream. Exact under the controlled scheduler only (one task runs at a time, so a task released after that
	// Exit must see the cancel request); in free-running mode a waiter may have read the counter just before.
	if strict && !o.stuck {
		failing := int32(0)
		switch {
		case sc.Fault.Nth > 0 && o.fired:
			failing = sc.Fault.ID
		case sc.Side == "dec" && sc.Damage > 0 && failureExpected && sc.Blocks <= sc.Tasks:
			failing = int32(sc.Damage) // single batch: task id == block number
		}
		if failing > 0 {
			gone := false
			for _, e := range o.events {
				if e.ID == failing && e.Step == kio.VerifExit {
					gone = true
				} else if gone && e.ID != failing && e.Step == kio.VerifAcquired {
					add("acquire-after-failure", "task %d took the shared stream after task %d had failed and exited (%s): the others did not stop", e.ID, failing, describeFailure(sc))
					break
				}
			}
		}
	}
	if o.notEnclosing != "" && !o.stuck && o.panicked == nil {
		add("task-failure-not-reported-by-enclosing-call", "a task failed (%s) while %s was running its batch, but %s returned nil (first error seen later: %v)", describeFailure(sc), o.notEnclosing, o.notEnclosing, o.apiErr)
	}
	if sc.Side == "enc" {
		if !failureExpected && !o.stuck && o.panicked == nil {
			if o.apiErr != nil {
				add("error-without-failure", "%v", o.apiErr)
			} else if baseline != nil && !bytes.Equal(o.out, baseline) {
				add("output-differs-from-sequential", "sink has %d bytes, the jobs=1 run %d", len(o.out), len(baseline))
			}
		}
	} else {
		want := data
		B := int(sc.BlockSz)
		if sc.From > 0 || sc.To > 0 {
			lo, hi := 0, len(data)
			if sc.From > 0 {
				lo = min((sc.From-1)*B, len(data))
			}
			if sc.To > 0 {
				hi = max(min((sc.To-1)*B, len(data)), lo)
			}
			want = data[lo:hi]
		}
		all := append(append([]byte(nil), o.out...), o.afterErr...)
		if len(all) > len(want) || !bytes.Equal(all, want[:len(all)]) {
			add("wrong-bytes", "the %d(+%d after the error) bytes returned are not a prefix of the expected %d bytes", len(o.out), len(o.afterErr), len(want))
		} else if !failureExpected && !o.stuck && o.panicked == nil {
			if o.apiErr != nil {
				add("error-without-failure", "%v", o.apiErr)
			} else if !bytes.Equal(o.out, want) {
				add("short-output", "clean EOF after %d of %d bytes", len(o.out), len(want))
			}
		}
	}
	return
}

func describeFailure(sc *protoScenario) string {
	switch {
	case sc.Fault.Nth > 0:
		return fmt.Sprintf("injected at task %d step %s", sc.Fault.ID, sched.StepName(sc.Fault.Step))
	case sc.SinkFail > 0:
		return fmt.Sprintf("sink write %d failed inside the shared section", sc.SinkFail)
	case sc.Damage > 0:
		return fmt.Sprintf("block %d is damaged", sc.Damage)
	}
	return "?"
}

// runProtoScenario explores the schedules of one scenario
func runProtoScenario(sc *protoScenario) (sum protoSummary) {
	t0 := time.Now()
	defer func() { sum.WallMs = time.Since(t0).Milliseconds() }()
	sum.Events = map[string]int{}
	data, stream, err := protoInputs(sc)
	if err != nil {
		sum.Violations = append(sum.Violations, protoViolation{Kind: "harness", Detail: err.Error(), Sched: *sc})
		return
	}
	var baseline []byte
	if sc.Side == "enc" {
		r := recipe{Name: "proto", Cfg: kz.Cfg{Transform: sc.Cfg[0], Entropy: sc.Cfg[1], BlockSize: sc.BlockSz, Jobs: 1, Checksum: sc.Checksum}, Shape: sc.Shape, Size: len(data), Seed: sc.Seed%7 + 1}
		if sc.Hint {
			r.Cfg.Hint = -1
		}
		_, baseline, _ = r.build()
	}
	orders := map[uint64]bool{}
	record := func(o *protoOutcome, strict bool, one protoScenario) {
		sum.Executions++
		h := sched.OrderHash(o.events)
		if !orders[h] {
			orders[h] = true
			if len(sum.Orders) < 100000 {
				sum.Orders = append(sum.Orders, h)
			}
		}
		if o.fired {
			sum.FaultFired++
		}
		if sum.SampleTrace == nil && len(o.events) > 0 {
			sum.SampleTrace = traceStrings(o.events, 60)
		}
		for _, v := range judge(&one, data, baseline, o, strict, &sum) {
			if len(sum.Violations) < 12 {
				sum.Violations = append(sum.Violations, v)
			}
		}
	}
	expected := sc.Tasks
	if sc.Hint {
		// the size hint caps the number of tasks per batch on both sides
		expected = min(sc.Tasks, min(sc.Blocks, 63))
	}
	switch sc.Mode {
	case "dfs":
		prefix := sc.Prefix
		single := sc.Prefix != nil
		for n := 0; n < max(sc.Runs, 1); n++ {
			rp := &sched.Replay{Prefix: prefix}
			ctl := sched.NewController(rp, sc.Fault, expected)
			o := execOnce(sc, data, stream, ctl, func() bool { return ctl.FaultFired })
			o.stuck, o.stuckWhy = ctl.Stuck, ctl.StuckWhy
			one := *sc
			one.Prefix = append([]int{}, picks(rp.Trace)...)
			one.Runs = 1
			record(&o, true, one)
			if single {
				return
			}
			prefix = sched.NextPrefix(rp.Trace, sc.Bound)
			if prefix == nil {
				sum.Exhausted = true
				break
			}
		}
	case "pct":
		for n := 0; n < sc.Runs; n++ {
			seed := uint64(sc.Seed)*1000003 + uint64(n)
			rp := &recordingChooser{inner: sched.NewPCT(seed, 3, 40*sc.Tasks)}
			ctl := sched.NewController(rp, sc.Fault, expected)
			o := execOnce(sc, data, stream, ctl, func() bool { return ctl.FaultFired })
			o.stuck, o.stuckWhy = ctl.Stuck, ctl.StuckWhy
			one := *sc
			one.Mode, one.Prefix, one.Runs = "dfs", rp.picks, 1 // a PCT run is replayable as its list of picks
			if len(one.Prefix) == 0 {
				one.Prefix = []int{0}
			}
			record(&o, true, one)
		}
	case "free":
		for n := 0; n < sc.Runs; n++ {
			p := sched.NewPerturb(uint64(sc.Seed)*7919+uint64(n), 1+n%2, sc.Fault)
			o := execOnce(sc, data, stream, p, func() bool { return p.FaultFired() })
			o.stuck, o.stuckWhy = p.Stuck, p.StuckWhy
			one := *sc
			one.Seed = sc.Seed*7919 + int64(n)
			one.Runs = 1
			record(&o, false, one)
			// offline linearizability check of the recorded history against the ticket-lock model
			res, detail := checkTicketHistory(o.events)
			sum.Histories++
			switch res {
			case "illegal":
				if len(sum.Violations) < 12 {
					sum.Violations = append(sum.Violations, protoViolation{Kind: "history-not-linearizable", Detail: detail, Sched: one, Trace: traceStrings(o.events, 120)})
				}
			case "unknown":
				sum.PorcUnknown++
			}
		}
	}
	return
}

func picks(tr []sched.Choice) []int {
	p := make([]int, len(tr))
	for i, c := range tr {
		p[i] = c.Picked
	}
	return p
}

type recordingChooser struct {
	inner sched.Chooser
	picks []int
}

func (r *recordingChooser) Choose(c []sched.Cand, cur int32) int {
	k := r.inner.Choose(c, cur)
	// store the pick as a rank (see sched.Replay) so that the run can be replayed in dfs mode
	def := 0
	for i, x := range c {
		if x.ID == cur {
			def = i
		}
	}
	rank := 0
	if k != def {
		rank = k + 1
		if k > def {
			rank = k
		}
	}
	r.picks = append(r.picks, rank)
	return k
}

func init() {
	core.RegisterChild("proto", func(raw json.RawMessage) any {
		var sc protoScenario
		if err := json.Unmarshal(raw, &sc); err != nil {
			return protoSummary{Violations: []protoViolation{{Kind: "harness", Detail: err.Error()}}}
		}
		return runProtoScenario(&sc)
	})
}

var _ = gen.Shapes
