package checks

import (
	"encoding/json"
	"fmt"
	"os"
	"path/filepath"
	"strings"
	"sync"
	"time"

	"verifharness/container"
	"verifharness/core"
	"verifharness/gen"
	"verifharness/kz"
)

// C03: the decoder is total - no byte string crashes, hangs or lets a panic escape.

type totMut struct {
	Kind string `json:"kind"`
	A    int64  `json:"a"`
	B    int64  `json:"b"`
	C    int64  `json:"c"`
}

type totCase struct {
	R    recipe `json:"recipe"`
	Mut  totMut `json:"mutation"`
	Jobs uint   `json:"jobs"`
}

type totResult struct {
	Outcome string   `json:"outcome"` // eof | error | panic-escaped | unbuilt
	Detail  string   `json:"detail"`
	Sites   []string `json:"recovered_sites"`
	OutLen  int      `json:"out_len"`
	InLen   int      `json:"in_len"`
}

// mutate builds the hostile input for a case (structure aware, through the independent container code)
func mutate(stream []byte, ps *container.Stream, m totMut, ckSize int) []byte {
	r := core.NewRng(uint64(m.A)*1000003 + uint64(m.B)*7919 + uint64(m.C) + 17)
	out := append([]byte(nil), stream...)
	nb := len(ps.Blocks)
	pick := func() *container.Block {
		if nb == 0 {
			return nil
		}
		return &ps.Blocks[int(m.A)%nb]
	}
	rebuild := func(h container.Header, payloads []*container.Bits, end bool) []byte {
		return container.Rebuild(&h, true, payloads, end)
	}
	allPayloads := func() []*container.Bits {
		var p []*container.Bits
		for i := range ps.Blocks {
			p = append(p, ps.PayloadBits(&ps.Blocks[i]))
		}
		return p
	}
	switch m.Kind {
	case "hdr-entropy": // any 5-bit entropy id incl. reserved ones, header check recomputed
		h := ps.Hdr
		h.Entropy = uint32(m.B) & 31
		return rebuild(h, allPayloads(), true)
	case "hdr-transform": // forged 48-bit chain: reserved ids, gaps, other transforms
		h := ps.Hdr
		switch m.B % 4 {
		case 0:
			h.Transform = r.U64() & (1<<48 - 1)
		case 1:
			h.Transform = uint64(1+r.Intn(22)) << 42
		case 2:
			h.Transform = h.Transform>>6 | uint64(1+r.Intn(19))<<30 // gap at the front
		default:
			h.Transform = uint64(1+r.Intn(19))<<42 | uint64(1+r.Intn(19))<<36 | uint64(1+r.Intn(19))<<30 | uint64(r.Intn(64))<<6
		}
		return rebuild(h, allPayloads(), true)
	case "hdr-blocksize":
		h := ps.Hdr
		// declared sizes of 1 GiB and more make the reader legitimately allocate and zero gigabytes per task: they are only
		// generated when C >= 2^40 (the serial thorough batch)
		sizes := []int{0, 16, 1008, 1024, 1040, 4096, 65536, 1 << 20, 4 << 20, 2 << 20, 1 << 20}
		if m.C >= 1<<40 {
			sizes = []int{1 << 30, 1<<30 + 16, (1<<28 - 1) << 4, 512 << 20}
		}
		h.BlockSize = sizes[int(m.B)%len(sizes)]
		return rebuild(h, allPayloads(), true)
	case "hdr-blocksize-tight":
		// smallest / near-smallest declared block size whose decode buffer (B + max(512, B/16)) still holds the real
		// block: the decoder runs with its buffers exactly full
		h := ps.Hdr
		L := 0
		for _, b := range ps.Blocks {
			L = max(L, b.PreLen)
		}
		L = max(L, h.BlockSize) // the original (undamaged) block length is at most the block size
		if len(ps.Blocks) > 0 && m.C%2 == 0 {
			L = min(h.BlockSize, int(m.A)) // data length of the first block when the recipe has a single short block
		}
		B := (L * 16 / 17) &^ 15
		for B+max(512, B>>4) < L {
			B += 16
		}
		B += 16 * (int(m.B)%3 - 1)
		if B < 1024 {
			B = 1024
		}
		h.BlockSize = B
		return rebuild(h, allPayloads(), true)
	case "hdr-size":
		h := ps.Hdr
		h.SzMask = 1 + int(m.B)%3
		h.Size = []int64{0, 1, 15, 1000, 1024, 1025, 65535, 1 << 20, 1<<32 - 1, 1<<47 - 1}[int(m.C)%10]
		if h.SzMask == 1 {
			h.Size &= 0xFFFF
		}
		return rebuild(h, allPayloads(), true)
	case "hdr-version":
		h := ps.Hdr
		h.Version = int(m.B) % 16
		return rebuild(h, allPayloads(), true)
	case "hdr-checksum-size":
		h := ps.Hdr
		h.CkSize = []int{0, 32, 64, 96}[int(m.B)%4]
		return rebuild(h, allPayloads(), true)
	case "len-prefix": // forged block length prefix
		b := pick()
		if b == nil {
			return out
		}
		v := []uint64{0, 1, 7, 8, uint64(b.PayloadLen / 2), uint64(b.PayloadLen - 1), uint64(b.PayloadLen + 1), uint64(b.PayloadLen + 800), uint64(b.PayloadLen * 3), 1<<uint(b.LenBits) - 1}[int(m.B)%10]
		container.SetBits(out, b.PrefixOff+5, b.LenBits, v)
		return out
	case "len-width": // forged width of the length field
		b := pick()
		if b == nil {
			return out
		}
		w := uint64(m.B) % 22 // widths above 24 bits declare >= 2 MiB ... 2 GiB blocks: serial thorough batch only (C >= 2^40)
		if m.C >= 1<<40 {
			w = 22 + uint64(m.B)%10
		}
		container.SetBits(out, b.PrefixOff, 5, w)
		return out
	case "len-huge": // declared length up to 2^34 bits with almost no data behind it
		o := &container.Bits{}
		container.WriteHeader(o, &ps.Hdr, true)
		o.Put(31, 5)
		o.Put(uint64(m.B), 34)
		o.PutBits(stream, ps.Hdr.Bits, min(len(stream)*8-ps.Hdr.Bits, 4000))
		return o.B
	case "mode": // mode byte / skip flags
		b := pick()
		if b == nil {
			return out
		}
		container.SetBits(out, b.PayloadOff, 8, uint64(m.B)&0xFF)
		return out
	case "skipflags":
		b := pick()
		if b == nil || !b.HasSkip {
			if b != nil {
				container.SetBits(out, b.PayloadOff, 8, uint64(b.Mode&0xF0)|uint64(m.B)&0x0F)
			}
			return out
		}
		container.SetBits(out, b.PayloadOff+8, 8, uint64(m.B)&0xFF)
		return out
	case "stored-len":
		b := pick()
		if b == nil {
			return out
		}
		bs := uint64(ps.Hdr.BlockSize)
		vals := []uint64{0, 1, uint64(b.PreLen - 1), uint64(b.PreLen + 1), bs, bs + 1, bs + 76, bs + 511, bs + 512, bs + bs/2, bs + bs/2 + 1, 2 * bs, 1<<uint(8*b.DataSize) - 1}
		container.SetBits(out, b.PayloadOff+8+boolInt(b.HasSkip)*8, 8*b.DataSize, vals[int(m.B)%len(vals)]&(1<<uint(8*b.DataSize)-1))
		return out
	case "codec-header": // the first bytes of the (entropy / transform) data region
		b := pick()
		if b == nil || b.DataLen < 16 {
			return out
		}
		n := min(b.DataLen/8, 48)
		switch m.B % 5 {
		case 0: // one byte set to an extreme value
			container.SetBits(out, b.DataOff+8*int(m.C%int64(n)), 8, []uint64{0, 0xFF, 0x80, 0x7F, 1}[r.Intn(5)])
		case 1: // a few random bytes
			for k := 0; k < 1+r.Intn(4); k++ {
				container.SetBits(out, b.DataOff+8*r.Intn(n), 8, r.U64()&0xFF)
			}
		case 2: // run of 0xFF
			for k := 0; k < min(n, 1+int(m.C%12)); k++ {
				container.SetBits(out, b.DataOff+8*k, 8, 0xFF)
			}
		case 3: // run of zeros
			for k := 0; k < min(n, 1+int(m.C%12)); k++ {
				container.SetBits(out, b.DataOff+8*k, 8, 0)
			}
		default: // single bit
			bit := b.DataOff + r.Intn(8*n)
			out[bit>>3] ^= 1 << uint(7-bit&7)
		}
		return out
	case "bwt-index": // raw BWT block (entropy NONE): forge the mode byte / each primary index
		b := pick()
		if b == nil || b.DataLen < 200 {
			return out
		}
		modeByte, _ := container.Get(out, b.DataOff, 8)
		chunks := 1 << uint((modeByte>>2)&7)
		pisz := int(modeByte&3) + 1
		chunk := int(m.B) % chunks
		off := b.DataOff + 8 + 8*pisz*chunk
		v := []uint64{0, 1, 1<<uint(8*pisz) - 1, 1<<uint(8*pisz) - 2, uint64(b.PreLen), uint64(b.PreLen + 1), uint64(b.PreLen - 2), uint64(r.Intn(1 << 24))}[int(m.C)%8]
		if m.C%9 == 8 {
			container.SetBits(out, b.DataOff, 8, r.U64()&0xFF) // the mode byte itself
		} else {
			container.SetBits(out, off, 8*pisz, v&(1<<uint(8*pisz)-1))
		}
		return out
	case "payload-random": // damage anywhere in a payload
		b := pick()
		if b == nil {
			return out
		}
		for k := 0; k < 1+int(m.B%6); k++ {
			bit := b.PayloadOff + r.Intn(max(b.PayloadLen, 1))
			if r.Intn(2) == 0 {
				out[bit>>3] ^= 1 << uint(7-bit&7)
			} else {
				out[bit>>3] = r.Byte()
			}
		}
		return out
	case "truncate":
		n := int(m.B) % max(len(out), 1)
		return out[:n]
	case "dup-block", "drop-block", "swap-blocks":
		p := allPayloads()
		if len(p) == 0 {
			return out
		}
		i := int(m.A) % len(p)
		j := int(m.B) % len(p)
		switch m.Kind {
		case "dup-block":
			p = append(p[:i+1], append([]*container.Bits{p[i]}, p[i+1:]...)...)
		case "drop-block":
			p = append(p[:i], p[i+1:]...)
		default:
			p[i], p[j] = p[j], p[i]
		}
		return rebuild(ps.Hdr, p, m.C%4 != 0)
	case "garbage": // valid header followed by random bytes
		o := &container.Bits{}
		container.WriteHeader(o, &ps.Hdr, true)
		g := make([]byte, 64+r.Intn(5000))
		r.Fill(g)
		if m.C < 1<<40 {
			g[0] = g[0]&0x07 | byte(r.Intn(20))<<3 // keep the first declared block length below 2^23 bits
		}
		return append(o.B, g...)
	case "forged-copy-block": // stream assembled from scratch: copy blocks whose stored length exceeds the block size
		h := ps.Hdr
		h.SzMask, h.Size = 1, int64(m.C%3000)
		var pl []*container.Bits
		nblk := 1 + int(m.A%3)
		for k := 0; k < nblk; k++ {
			L := []int{h.BlockSize + 1, h.BlockSize + 76, h.BlockSize + 511, h.BlockSize + 512, h.BlockSize + h.BlockSize/2, h.BlockSize, 16, 15}[int(m.B+int64(k))%8]
			p := &container.Bits{}
			ds := 1
			if L >= 256 {
				ds = 2
			}
			if L >= 65536 {
				ds = 3
			}
			p.Put(uint64(0x80|(ds-1)<<5), 8)
			p.Put(uint64(L), 8*ds)
			if ckSize > 0 {
				p.Put(r.U64(), ckSize)
			}
			raw := make([]byte, L)
			r.Fill(raw)
			p.PutBits(raw, 0, 8*L)
			pl = append(pl, p)
		}
		return rebuild(h, pl, true)
	case "legacy-version":
		// the reader still accepts format versions 0..5 (other header layouts, older variants of the codecs): a well-formed
		// header of such a version in front of the blocks (valid version-6 blocks, damaged ones, or degenerate ones)
		v := int(m.B) % 6
		h := ps.Hdr
		if m.C%3 == 0 {
			h.Entropy = uint32(m.A) % 9 // any entropy codec: the legacy decoders of each
		}
		pl := allPayloads()
		switch m.C % 4 {
		case 1:
			for _, p := range pl {
				for k := 0; k < 4 && p.Len > 64; k++ {
					bit := 24 + r.Intn(p.Len-24)
					p.B[bit>>3] ^= 1 << uint(7-bit&7)
				}
			}
		case 2:
			pl = nil
			for k := 0; k < 2; k++ {
				L := 1 + r.Intn(60)
				p := &container.Bits{}
				p.Put(0, 8)
				p.Put(uint64(L), 8)
				if h.CkSize != 0 {
					p.Put(r.U64(), 32)
				}
				raw := make([]byte, L)
				r.Fill(raw)
				if m.A%2 == 0 {
					for i := 0; i < 4 && i < L; i++ {
						raw[i] = 0
					}
				}
				p.PutBits(raw, 0, 8*L)
				pl = append(pl, p)
			}
		}
		o := &container.Bits{}
		container.WriteLegacyHeader(o, v, &h, len(pl))
		for _, p := range pl {
			container.WriteBlock(o, p.B, p.Len)
		}
		container.WriteEnd(o)
		return o.B
	case "degenerate-block":
		// stream assembled from scratch: the seed's header (a chain of one or several transforms, entropy forced to NONE so that
		// the stage input is raw in the payload, checksum kept or dropped) followed by blocks whose stored length is tiny
		// (1..40 bytes: header-only inputs of the stages) and whose content declares sizes 0 / 1 / huge in its first bytes
		h := ps.Hdr
		h.Entropy = 0
		ck := ckSize
		if m.C&1 == 0 {
			ck = 0
		}
		h.CkSize = ck
		h.SzMask, h.Size = 0, 0
		var pl []*container.Bits
		nblk := 1 + int(m.C>>1)&1
		for k := 0; k < nblk; k++ {
			L := 1 + (int(m.B)+k*7)%40 // systematic: B = stored length - 1, A = content pattern, C = checksum / blocks / form bits
			p := &container.Bits{}
			// no stage skipped: mode low nibble = skip flags of the first four stages (0 = apply)
			if (m.C>>2)&1 == 1 {
				p.Put(uint64(0x10), 8) // "more than 4 transforms" form: explicit skip flag byte
				p.Put(0, 8)
			} else {
				p.Put(0, 8)
			}
			p.Put(uint64(L), 8)
			if ck > 0 {
				p.Put(r.U64(), ck)
			}
			raw := make([]byte, L)
			switch int(m.A) % 6 {
			case 0: // all zero: every declared size / index is 0
			case 1:
				for i := range raw {
					raw[i] = 0xFF
				}
			case 2:
				r.Fill(raw)
				for i := 0; i < 4 && i < L; i++ {
					raw[i] = 0
				}
			case 3:
				r.Fill(raw)
				if L >= 4 {
					raw[0], raw[1], raw[2], raw[3] = 0, 0, 0, byte(1+m.B%3)
				}
			case 4:
				r.Fill(raw)
				if L >= 4 {
					raw[0], raw[1], raw[2], raw[3] = byte(1+m.B%3), 0, 0, 0
				}
			default:
				r.Fill(raw)
			}
			p.PutBits(raw, 0, 8*L)
			pl = append(pl, p)
		}
		return rebuild(h, pl, true)
	case "random-bytes":
		g := make([]byte, int(m.B)%3000)
		r.Fill(g)
		if m.C%2 == 0 && len(g) >= 4 {
			copy(g, "KANZ")
		}
		return g
	}
	return out
}

// totInput builds the hostile input of a case (and, for headerless seeds, the reader parameters)
func totInput(c *totCase) (in []byte, hc *kz.Cfg, unbuilt string) {
	_, stream, err := c.R.build()
	if err != nil {
		return nil, nil, err.Error()
	}
	var ps *container.Stream
	var perr error
	if c.R.Cfg.Headerless {
		cf := c.R.Cfg
		hc = &cf
		// give the independent code a header to work with: the mutators re-assemble "header + blocks"; it is stripped again below
		ps, perr = container.ParseHeaderless(stream, int(cf.Checksum))
		if perr == nil {
			ps.Hdr = container.Header{Version: 6, CkSize: int(cf.Checksum), BlockSize: int(cf.BlockSize)}
			o := &container.Bits{}
			container.WriteHeader(o, &ps.Hdr, true)
			ps.Hdr.Bits = o.Len
			stream = append(append([]byte(nil), o.B...), stream...)
			ps, perr = container.Parse(stream)
		}
	} else {
		ps, perr = container.Parse(stream)
	}
	if perr != nil {
		return nil, nil, perr.Error()
	}
	in = mutate(stream, ps, c.Mut, int(c.R.Cfg.Checksum))
	if hc != nil {
		// headerless reader: the stream starts at the first block; header mutations become parameter mismatches
		if c.Mut.Kind != "random-bytes" && c.Mut.Kind != "truncate" {
			hb := ps.Hdr.Bits / 8
			if mh, err := container.ParseHeader(in); err == nil {
				hb = mh.Bits / 8 // the mutated header may carry a size field
			}
			if len(in) >= hb {
				in = in[hb:]
			}
		}
		if strings.HasPrefix(c.Mut.Kind, "hdr-") {
			hc.BlockSize = []uint{1024, 4096, 1 << 20, uint(c.R.Cfg.BlockSize) * 2}[int(c.Mut.B)%4]
			hc.Checksum = []uint{0, 32, 64}[int(c.Mut.C)%3]
			hc.Entropy = kz.Entropies[int(c.Mut.A)%len(kz.Entropies)]
			hc.Transform = kz.Transforms[int(c.Mut.B)%len(kz.Transforms)]
		}
	}
	return in, hc, ""
}

func runTotCase(c *totCase) (res totResult) {
	in, hc, unbuilt := totInput(c)
	if unbuilt != "" {
		return totResult{Outcome: "unbuilt", Detail: unbuilt}
	}
	res.InLen = len(in)
	installRecoverMonitor()
	takeRecoverSites()
	rr := kz.Decompress(in, c.Jobs, hc)
	res.Sites = takeRecoverSites()
	res.OutLen = len(rr.Out)
	switch {
	case kz.IsPanic(rr.Err):
		res.Outcome, res.Detail = "panic-escaped", rr.Err.Error()
	case rr.Err != nil:
		res.Outcome, res.Detail = "error", core.Trunc(rr.Err.Error(), 100)
	default:
		res.Outcome = "eof"
	}
	return
}

func init() {
	core.RegisterChild("c03", func(raw json.RawMessage) any {
		var c totCase
		if err := json.Unmarshal(raw, &c); err != nil {
			return totResult{Outcome: "unbuilt", Detail: err.Error()}
		}
		return runTotCase(&c)
	})
	register("C03", "exploration", c03)
}

func c03(run *core.Run, replay string) {
	run.SetRule("structure-aware hostile inputs derived from valid seed streams of every transform and entropy codec through the independent container code: header fields rewritten with the header check recomputed " +
		"(entropy / transform ids incl. reserved and gapped chains, block size, size field, version, checksum size), forged block length prefixes and widths (up to 2^34 bits), mode byte / skip flags / stored length, " +
		"codec headers (first bytes of the entropy or raw transform data: Huffman/ANS/range tables, LZ/ROLZ/RLT/TEXT/UTF headers, every BWT primary index incl. > 4 MiB blocks), random payload damage, truncation, " +
		"duplicated / dropped / swapped blocks, copy blocks longer than the block size with a small declared size, degenerate blocks (stored length 1..40 with declared inner sizes 0 / 1 / huge, checksum on and off), garbage after a valid header; decoded in child processes with jobs 1..8 under a CPU budget; a sample of the same inputs is decompressed by the built command-line tool (no Go crash, exits on its own). " +
		"Oracle: the child survives, no panic escapes Read, CPU budget not exceeded twice. non-trivial = the input differs from the seed and the decoder ended with an error or recovered a panic; distinct = (seed, mutation, jobs)")
	run.Assume("'bounded by the declared block sizes' is restated as a CPU budget of 120 s per input (isolated re-run: 480 s; CPU time includes the spinning of sibling tasks); allocations up to the declared (possibly forged) lengths are legitimate")
	if replay != "" {
		var c totCase
		if err := core.LoadReplay(replay, &c); err != nil {
			run.Violate("C03 replay-unreadable", err.Error(), nil)
			return
		}
		res := core.RunIsolated("c03", []any{&c}, core.IsoOpts{Workers: 1, CPUBudget: 240 * time.Second})
		run.Eval(1)
		fmt.Printf("replay: status=%s out=%s detail=%s\n", res[0].Status, res[0].Out, core.Trunc(res[0].Detail, 1500))
		if res[0].Status == "crash" {
			run.Violate("C03 process-death", core.Trunc(res[0].Detail, 1500), c)
		}
		return
	}
	S := run.Seed
	var seeds []recipe
	shapes := map[string]string{"DNA": "dna", "UTF": "cyrillic", "EXE": "elfx86", "MM": "wav", "RLT": "longruns", "ZRLT": "runs", "PACK": "smallalpha", "TEXT": "text", "ROLZ": "repeatblocks", "ROLZX": "repeatblocks", "LZ": "html", "LZX": "html", "LZP": "repeatblocks"}
	for i, t := range kz.Transforms {
		sh := shapes[t]
		if sh == "" {
			sh = "text"
		}
		// entropy NONE: the transform output is raw in the payload, so its own header can be forged directly
		seeds = append(seeds, recipe{"seed-" + t + "-none", cfg(t, "NONE", []uint{1024, 4096, 16384, 65536}[i%4], 1, []uint{0, 32, 64}[i%3]), sh, 3*[]int{1024, 4096, 16384, 65536}[i%4] + 100, S})
		seeds = append(seeds, recipe{"seed-" + t + "-coded", cfg(t, []string{"HUFFMAN", "ANS0", "RANGE", "FPAQ"}[i%4], 8192, 1, 32), sh, 30000, S})
	}
	// the ARM64 branch of the EXE codec, the UTF codec on 3/4-byte sequences, PACK on a 16-symbol alphabet
	seeds = append(seeds, recipe{"seed-EXEarm-none", cfg("EXE", "NONE", 16384, 1, 0), "elfarm64", 50000, S},
		recipe{"seed-UTFcjk-none", cfg("UTF", "NONE", 16384, 1, 32), "cjk", 50000, S},
		recipe{"seed-PACK16-none", cfg("PACK", "NONE", 4096, 1, 0), "alpha:16", 13000, S})
	for i, e := range kz.Entropies {
		seeds = append(seeds, recipe{"seed-none-" + e, cfg("NONE", e, 4096, 1, []uint{32, 0, 64}[i%3]), []string{"text", "skewed", "random"}[i%3], 14000, S})
		seeds = append(seeds, recipe{"seed-bwt-" + e, cfg("BWT+RANK+ZRLT", e, 16384, 1, 0), "html", 40000, S})
	}
	for i, lc := range kz.LevelChains {
		seeds = append(seeds, recipe{fmt.Sprintf("seed-level%d", i), kz.Cfg{Transform: lc[0], Entropy: lc[1], BlockSize: 16384, Jobs: 1, Checksum: 32, Hint: -1}, []string{"text", "cjk", "elfx86", "wav", "dna"}[i%5], 40000, S})
	}
	for i, t := range []string{"LZ", "BWT", "TEXT+ROLZ", "RLT+ZRLT"} {
		seeds = append(seeds, recipe{"seed-headerless-" + t, kz.Cfg{Transform: t, Entropy: []string{"NONE", "ANS0", "HUFFMAN", "RANGE"}[i], BlockSize: 4096, Jobs: 1, Checksum: []uint{0, 32, 64, 32}[i], Headerless: true}, "html", 20000, S})
	}
	big := []recipe{
		{"seed-big-bwt", cfg("BWT", "NONE", 8<<20, 1, 0), "html", 4<<20 + 70000, S},
		// one block of 136 x 31001 bytes: 8 x odd, equal to B + B/16 for the legal block size B = 128 x 31001
		{"seed-big-bwt-tight", cfg("BWT", "HUFFMAN", 8<<20, 1, 0), "html", 136 * 31001, S},
		{"seed-big-bwts-tight", cfg("BWTS", "ANS0", 8<<20, 1, 32), "text", 136 * 31003, S},
		{"seed-big-bwts", cfg("BWTS", "NONE", 8<<20, 1, 0), "text", 4<<20 + 70000, S},
		// two blocks above 4 MiB handled by the same task slot (jobs 1), the second one shorter: state kept from block to block
		{"seed-big-bwt-2blocks", cfg("BWT", "NONE", 6<<20, 1, 0), "nulblocks", 6<<20 + 4300000, S},
		{"seed-big-lz", cfg("LZ", "NONE", 8<<20, 1, 32), "repeatblocks", 5 << 20, S},
		{"seed-big-rolz", cfg("ROLZ", "NONE", 8<<20, 1, 0), "html", 5 << 20, S},
	}
	kinds := []string{"hdr-entropy", "hdr-transform", "hdr-blocksize", "hdr-blocksize-tight", "hdr-size", "hdr-version", "hdr-checksum-size", "len-prefix", "len-width", "mode", "skipflags", "stored-len",
		"codec-header", "codec-header", "codec-header", "codec-header", "payload-random", "payload-random", "truncate", "dup-block", "drop-block", "swap-blocks", "garbage", "forged-copy-block", "random-bytes", "legacy-version", "legacy-version", "legacy-version", "legacy-version"}
	var tcs []*totCase
	per := run.Pick(3, 60)
	for si := range seeds {
		for ki, k := range kinds {
			for q := 0; q < per; q++ {
				r := core.Derive(S, "c03", si, ki, q)
				if !run.Thorough() && strings.HasPrefix(k, "hdr-") && (si+ki+q)%2 == 1 {
					continue
				}
				tcs = append(tcs, &totCase{R: seeds[si], Mut: totMut{Kind: k, A: int64(r.Intn(1 << 20)), B: int64(r.Intn(1 << 20)), C: int64(r.Intn(1 << 20))}, Jobs: uint(1 + r.Intn(8))})
			}
		}
		if strings.HasSuffix(seeds[si].Name, "-none") || strings.HasPrefix(seeds[si].Name, "seed-level") {
			// degenerate blocks, systematically: stored length 1..40 (24 in the quick tier) x 6 content patterns x checksum on/off
			maxL := run.Pick(24, 40)
			for L := 0; L < maxL; L++ {
				for pat := 0; pat < 6; pat++ {
					for ckb := 0; ckb < 2; ckb++ {
						if strings.HasPrefix(seeds[si].Name, "seed-level") && (L+pat+ckb)%3 != 0 {
							continue
						}
						tcs = append(tcs, &totCase{R: seeds[si], Mut: totMut{Kind: "degenerate-block", A: int64(pat), B: int64(L), C: int64(ckb | (L&1)<<1 | (pat&1)<<2)}, Jobs: uint(1 + (L+pat)%4)})
					}
				}
			}
		}
		if strings.Contains(seeds[si].Name, "-BWT-none") || strings.Contains(seeds[si].Name, "seed-bwt-NONE") {
			for q := 0; q < 40; q++ {
				tcs = append(tcs, &totCase{R: seeds[si], Mut: totMut{Kind: "bwt-index", A: int64(q % 3), B: int64(q), C: int64(q / 2)}, Jobs: uint(1 + q%4)})
			}
		}
	}
	// > 4 MiB regimes: every primary index of the 8 chunks, mode byte, stored length, codec header
	for bi := range big {
		nbig := run.Pick(6, 80)
		if strings.Contains(big[bi].Name, "bwt") {
			for ch := 0; ch < 8; ch++ {
				for _, v := range []int64{2, 4, 7} {
					if !run.Thorough() && (ch+int(v))%2 == 0 {
						continue
					}
					tcs = append(tcs, &totCase{R: big[bi], Mut: totMut{Kind: "bwt-index", A: 0, B: int64(ch), C: v}, Jobs: uint(1 + ch%4)})
				}
			}
			nbig = run.Pick(4, 40)
		}
		if strings.Contains(big[bi].Name, "2blocks") {
			// every primary index of the SECOND block forged to small / boundary values
			for ch := 0; ch < 8; ch++ {
				for _, v := range []int64{0, 1, 4, 5, 6} {
					if !run.Thorough() && ch > 1 && (ch+int(v))%3 != 0 {
						continue
					}
					tcs = append(tcs, &totCase{R: big[bi], Mut: totMut{Kind: "bwt-index", A: 1, B: int64(ch), C: v}, Jobs: 1})
				}
			}
		}
		if strings.Contains(big[bi].Name, "tight") {
			for q := 0; q < 6; q++ {
				tcs = append(tcs, &totCase{R: big[bi], Mut: totMut{Kind: "hdr-blocksize-tight", A: int64(big[bi].Size), B: int64(q), C: 0}, Jobs: []uint{1, 4, 2}[q%3]})
			}
		}
		for q := 0; q < nbig; q++ {
			k := []string{"codec-header", "stored-len", "payload-random", "mode", "len-prefix"}[q%5]
			tcs = append(tcs, &totCase{R: big[bi], Mut: totMut{Kind: k, A: 0, B: int64(q * 7), C: int64(q * 13)}, Jobs: uint(1 + q%3)})
		}
	}
	var serial []*totCase
	if run.Thorough() {
		// gigabyte-sized declared lengths / block sizes: legitimate but heavy allocations, run one at a time
		for q := 0; q < 6; q++ {
			serial = append(serial, &totCase{R: seeds[q], Mut: totMut{Kind: []string{"hdr-blocksize", "len-width", "garbage"}[q%3], A: 0, B: int64(q), C: 1<<40 + int64(q)}, Jobs: uint(1 + q%2)})
		}
		for q := 0; q < 8; q++ {
			serial = append(serial, &totCase{R: seeds[0], Mut: totMut{Kind: "len-huge", B: []int64{1 << 30, 1<<33 + 5, 1 << 34, 1<<34 - 1, 1 << 31, 3 << 32, 1<<34 - 8, 1 << 28}[q]}, Jobs: 1})
		}
	}
	cases := make([]any, len(tcs))
	for i := range tcs {
		cases[i] = tcs[i]
	}
	results := core.RunIsolated("c03", cases, core.IsoOpts{Workers: 12, CPUBudget: 120 * time.Second, WallBudget: 30 * time.Minute})
	if len(serial) > 0 {
		sc := make([]any, len(serial))
		for i := range serial {
			sc[i] = serial[i]
		}
		results = append(results, core.RunIsolated("c03", sc, core.IsoOpts{Workers: 1, CPUBudget: 240 * time.Second, WallBudget: 30 * time.Minute})...)
		tcs = append(tcs, serial...)
	}
	slowest(run, len(results), func(i int) (int64, string) {
		return results[i].CPUms, fmt.Sprintf("%s %v j=%d", tcs[i].R.Name, tcs[i].Mut, tcs[i].Jobs)
	})
	sites := map[string]int{}
	cpuConfirmed := 0
	for i, r := range results {
		c := tcs[i]
		run.Eval(1)
		switch r.Status {
		case "crash":
			site := "unknown"
			if k := strings.Index(r.Detail, "github.com/flanglet/kanzi-go/v2/"); k >= 0 {
				f := r.Detail[k+len("github.com/flanglet/kanzi-go/v2/"):]
				if e := strings.IndexAny(f, "(\n"); e > 0 {
					if strings.HasPrefix(f[e:], "(*") {
						if e2 := strings.Index(f[e+1:], "("); e2 > 0 {
							e = e + 1 + e2
						}
					}
					site = f[:e]
				}
			}
			run.Violate(fmt.Sprintf("C03 process-death mutation=%s site=%s", c.Mut.Kind, site), fmt.Sprintf("[%s jobs=%d %v] decoding killed the hosting process: %s", c.R.Name, c.Jobs, c.Mut, core.Trunc(r.Detail, 1800)), c)
			continue
		case "cpu":
			if cpuConfirmed >= 3 {
				// three inputs already exceeded the budget twice: the verdict stands, the others are not re-run (each re-run costs 8 CPU-minutes)
				run.Inconclusive(fmt.Sprintf("CPU budget exceeded once, not re-run (3 confirmed already): %s %v", c.R.Name, c.Mut))
				continue
			}
			// isolated re-run with 4x the budget; only a second expiry is a violation
			rr := core.RunIsolated("c03", []any{c}, core.IsoOpts{Workers: 1, CPUBudget: 480 * time.Second, WallBudget: 40 * time.Minute})
			if rr[0].Status == "cpu" && (strings.Contains(rr[0].Detail, "runtime.mallocgc") || strings.Contains(rr[0].Detail, "runtime.memclrNoHeapPointers")) {
				// the budget expired while the decoder was allocating / zeroing a buffer of the (forged) declared size while its sibling
				// tasks spin: legitimate work whose CPU cost scales with machine load, not a hang
				run.Inconclusive(fmt.Sprintf("CPU budget exceeded twice during a large allocation: %s %v", c.R.Name, c.Mut))
			} else if rr[0].Status == "cpu" {
				cpuConfirmed++
				run.Violate("C03 cpu-budget-exceeded-twice mutation="+c.Mut.Kind, fmt.Sprintf("[%s jobs=%d %v] 120 s then 480 s of CPU without finishing: %s", c.R.Name, c.Jobs, c.Mut, core.Trunc(rr[0].Detail, 1500)), c)
			} else {
				run.Inconclusive(fmt.Sprintf("CPU budget exceeded once only: %s %v", c.R.Name, c.Mut))
			}
			continue
		case "timeout":
			run.Inconclusive(fmt.Sprintf("wall-clock watchdog: %s %v", c.R.Name, c.Mut))
			continue
		}
		var tr totResult
		json.Unmarshal(r.Out, &tr)
		run.Count("outcome_"+tr.Outcome, 1)
		run.Count("mutations_"+c.Mut.Kind, 1)
		for _, s := range tr.Sites {
			sites[s]++
		}
		if tr.Outcome == "error" || len(tr.Sites) > 0 {
			run.Nontrivial(fmt.Sprintf("%s|%v|%d", c.R.Name, c.Mut, c.Jobs))
		}
		if tr.Outcome == "panic-escaped" {
			run.Violate("C03 panic-escaped mutation="+c.Mut.Kind, fmt.Sprintf("[%s jobs=%d %v] %s", c.R.Name, c.Jobs, c.Mut, tr.Detail), c)
		}
	}
	// the command-line tool on hostile archives (its own recover wrapper, header printing, size check, file handling): a sample
	// of the same inputs is decompressed by the built binary; it must exit on its own with an error code, never with a Go crash
	if _, err := buildCLI(); err == nil {
		var sample []*totCase
		stride := max(1, len(tcs)/run.Pick(160, 1500))
		for i := 0; i < len(tcs); i += stride {
			if !tcs[i].R.Cfg.Headerless && tcs[i].R.Size < 1<<20 {
				sample = append(sample, tcs[i])
			}
		}
		var cmu sync.Mutex
		core.ParallelDo(len(sample), 8, func(i int) {
			c := sample[i]
			in, _, unbuilt := totInput(c)
			if unbuilt != "" {
				return
			}
			work, err := os.MkdirTemp(cliTmpRoot, "c03-")
			if err != nil {
				return
			}
			defer os.RemoveAll(work)
			os.WriteFile(filepath.Join(work, "in.knz"), in, 0o644)
			args := []string{"-d", "-i", "in.knz", "-o", "out.bin", "-j", fmt.Sprint(1 + i%4), "-v", fmt.Sprint([]int{0, 1, 4}[i%3])}
			if i%7 == 0 {
				args = append(args, "--from=2")
			}
			code, so, se := runToolPiped(work, nil, 0, args...)
			cmu.Lock()
			defer cmu.Unlock()
			run.Eval(1)
			run.Count("cli_hostile_inputs", 1)
			if code != 0 {
				run.Count("cli_rejected_with_error_code", 1)
			}
			txt := se + string(so)
			if code == -9 {
				run.Inconclusive(fmt.Sprintf("tool did not finish within 10 min on %s %v", c.R.Name, c.Mut))
			} else if strings.Contains(txt, "goroutine ") || strings.Contains(txt, "panic: ") || strings.Contains(txt, "fatal error: ") || code == 2 && strings.Contains(txt, "runtime.") {
				run.Violate("C03 cli-crash mutation="+c.Mut.Kind, fmt.Sprintf("[%s %v] kanzi -d exits %d with a Go crash: %s", c.R.Name, c.Mut, code, core.Trunc(txt, 1200)), c)
			}
		})
		// a directory of archives, some of them hostile, decompressed with several jobs: the first failing file makes the tool
		// stop early while the workers of the other files are still running
		nrep := run.Pick(40, 200)
		core.ParallelDo(4, 4, func(d int) {
			work, err := os.MkdirTemp(cliTmpRoot, "c03dir-")
			if err != nil {
				return
			}
			defer os.RemoveAll(work)
			os.MkdirAll(filepath.Join(work, "in"), 0o755)
			os.MkdirAll(filepath.Join(work, "back"), 0o755)
			for i := 0; i < 24; i++ {
				data := gen.Make([]string{"text", "html", "random"}[i%3], 20000+3000*i, run.Seed+int64(d*100+i))
				st, _, err := kz.Compress(data, kz.Cfg{Transform: "LZ", Entropy: "HUFFMAN", BlockSize: 4096, Jobs: 1, Checksum: 32}, nil)
				if err != nil {
					continue
				}
				switch {
				case i%5 == d%5:
					st = []byte("garbage, not a kanzi stream")
				case i%7 == 3:
					st = st[:len(st)/3]
				case i%11 == 5:
					st[len(st)/2] ^= 0x40
				}
				os.WriteFile(filepath.Join(work, "in", fmt.Sprintf("f%02d.knz", i)), st, 0o644)
			}
			for k := 0; k < nrep/4; k++ {
				code, so, se := runToolPiped(work, nil, 0, "-d", "-i", "in", "-o", "back", "-f", "-v", "0", "-j", fmt.Sprint(4+4*(k%3)))
				cmu.Lock()
				run.Eval(1)
				run.Count("cli_hostile_directories_decompressed", 1)
				txt := se + string(so)
				if strings.Contains(txt, "goroutine ") || strings.Contains(txt, "panic: ") || strings.Contains(txt, "fatal error: ") {
					run.Violate("C03 cli-crash mutation=directory-of-archives", fmt.Sprintf("kanzi -d on a directory of 24 archives (some garbage / truncated / damaged) with several jobs exits %d with a Go crash: %s", code, core.Trunc(txt, 900)), map[string]any{"dir": d, "rep": k})
					cmu.Unlock()
					return
				}
				cmu.Unlock()
			}
		})
		if cliTmpRoot != "" {
			os.RemoveAll(cliTmpRoot)
		}
	}
	nrec := 0
	for s, n := range sites {
		nrec += n
		run.Seen("recovered_panic_sites", fmt.Sprintf("%s x%d", s, n))
	}
	run.Count("recovered_panics", nrec)
	if nrec == 0 && run.NumViolations() == 0 {
		run.Inconclusive("no recovered panic at all: the mutations were too tame to exercise the decoder's last line of defence")
	}
	for i := 0; i < 6; i++ {
		run.Sample(tcs[(i*7919+1)%len(tcs)])
	}
	_ = gen.Shapes
}
