package checks

import (
	"fmt"
	"sort"
	"sync"

	"github.com/flanglet/kanzi-go/v2/transform"
)

// Structural monitor for "inverse BWT workers write disjoint output ranges" (C18): through the write-range hook of
// transform/BWT.go every worker of a parallel inverse BWT reports the closed range of output positions it wrote; when the next
// inverse starts on the same instance (or at flush time) the ranges of different workers must be pairwise disjoint. Two workers
// writing the same byte are a data race even when they write the same value, and the race detector rarely sees this one (the
// two writes are far apart in time and the 4 shadow slots of the word are recycled in between).

type bwtCall struct {
	n      int
	ranges map[int][2]int // worker (first chunk) -> [lo, hi] over everything it wrote
}

var bwtMu sync.Mutex
var bwtCalls = map[any]*bwtCall{}
var bwtOverlaps []string
var bwtInverses, bwtParallel int

func bwtFinish(c *bwtCall) {
	if c == nil || len(c.ranges) == 0 {
		return
	}
	bwtInverses++
	if len(c.ranges) < 2 {
		return
	}
	bwtParallel++
	type wr struct{ task, lo, hi int }
	var ws []wr
	for t, r := range c.ranges {
		ws = append(ws, wr{t, r[0], r[1]})
	}
	sort.Slice(ws, func(a, b int) bool { return ws[a].lo < ws[b].lo })
	for i := 1; i < len(ws); i++ {
		if ws[i].lo <= ws[i-1].hi && len(bwtOverlaps) < 20 {
			bwtOverlaps = append(bwtOverlaps, fmt.Sprintf("inverse BWT of %d bytes with %d workers: the worker starting at chunk %d wrote positions [%d,%d] and the worker starting at chunk %d wrote [%d,%d]: position %d is written by both",
				c.n, len(ws), ws[i-1].task, ws[i-1].lo, ws[i-1].hi, ws[i].task, ws[i].lo, ws[i].hi, ws[i].lo))
		}
	}
}

func installBWTMonitor() {
	transform.SetVerifBWTHook(func(id any, task int, lo, hi int) {
		bwtMu.Lock()
		defer bwtMu.Unlock()
		if task < 0 {
			bwtFinish(bwtCalls[id])
			bwtCalls[id] = &bwtCall{n: hi, ranges: map[int][2]int{}}
			return
		}
		c := bwtCalls[id]
		if c == nil {
			return
		}
		if r, ok := c.ranges[task]; ok {
			c.ranges[task] = [2]int{min(r[0], lo), max(r[1], hi)}
		} else {
			c.ranges[task] = [2]int{lo, hi}
		}
	})
}

// flushBWTMonitor closes the pending calls and returns (overlap reports, inverses observed, of which with >= 2 workers)
func flushBWTMonitor() ([]string, int, int) {
	bwtMu.Lock()
	defer bwtMu.Unlock()
	for id, c := range bwtCalls {
		bwtFinish(c)
		delete(bwtCalls, id)
	}
	o := bwtOverlaps
	bwtOverlaps = nil
	return o, bwtInverses, bwtParallel
}
