package checks

import (
	"encoding/json"
	"fmt"
	"sort"
	"time"

	kio "github.com/flanglet/kanzi-go/v2/io"

	"verifharness/core"
	"verifharness/sched"
)

// C07: block hand-off protocol - exclusive, ordered, always terminating, failures reported.

func protoSig(prop string, v *protoViolation) string {
	f := "none"
	switch {
	case v.Sched.Fault.Nth > 0:
		f = "hook@" + sched.StepName(v.Sched.Fault.Step)
	case v.Sched.SinkFail > 0:
		f = "sink-write"
	case v.Sched.Damage > 0 && v.Sched.DamageHd:
		f = "forged-length"
	case v.Sched.Damage > 0:
		f = "damaged-payload"
	}
	return fmt.Sprintf("%s %s side=%s fault=%s", prop, v.Kind, v.Sched.Side, f)
}

func c07Scenarios(run *core.Run) []*protoScenario {
	S := run.Seed
	var scs []*protoScenario
	base := func(side string, tasks, blocks int) protoScenario {
		return protoScenario{Side: side, Tasks: tasks, Blocks: blocks, BlockSz: 1024, Shape: "text", Cfg: [2]string{"NONE", "NONE"}, Checksum: 32, Seed: S}
	}
	encSteps := []int{kio.VerifStart, kio.VerifWaitEnter, kio.VerifSpin, kio.VerifAcquired, kio.VerifIOBegin, kio.VerifIOEnd}
	decSteps := []int{kio.VerifStart, kio.VerifWaitEnter, kio.VerifSpin, kio.VerifAcquired, kio.VerifIOBegin, kio.VerifIOEnd, kio.VerifPostPublish}
	// 1. exhaustive DFS over ALL interleavings of one batch of 2 tasks, both sides, no fault and every (task, step) fault.
	//    encode: 2 blocks, jobs 2 (one batch). decode: 1 block, jobs 2 (task 1 decodes the block, task 2 meets the end
	//    marker) - a stream of 2 blocks needs a second batch for the end marker and the schedule space becomes a product,
	//    so those scenarios are explored with a preemption bound and a cap instead.
	for _, side := range []string{"enc", "dec"} {
		steps := encSteps
		nblk := 2
		if side == "dec" {
			steps = decSteps
			nblk = 1
		}
		sc := base(side, 2, nblk)
		sc.Mode, sc.Bound, sc.Runs = "dfs", -1, 60000
		scs = append(scs, &sc)
		sc2 := base(side, 2, 4) // several batches
		sc2.Mode, sc2.Bound, sc2.Runs = "dfs", 3, run.Pick(3000, 40000)
		scs = append(scs, &sc2)
		for id := int32(1); id <= 2; id++ {
			for _, st := range steps {
				f := base(side, 2, nblk)
				f.Fault = sched.Fault{ID: id, Step: st, Nth: 1}
				f.Mode, f.Bound, f.Runs = "dfs", -1, 60000
				scs = append(scs, &f)
				if side == "dec" {
					g := base(side, 2, 2) // fault in a task of the first of two batches
					g.Fault = sched.Fault{ID: id, Step: st, Nth: 1}
					g.Mode, g.Bound, g.Runs = "dfs", 3, run.Pick(1500, 20000)
					scs = append(scs, &g)
				}
			}
		}
		if side == "dec" {
			for _, hd := range []bool{false, true} {
				d := base(side, 2, 1)
				d.Damage, d.DamageHd = 1, hd
				d.Mode, d.Bound, d.Runs = "dfs", -1, 60000
				scs = append(scs, &d)
				for _, dmg := range []int{1, 2} {
					d2 := base(side, 2, 3)
					d2.Damage, d2.DamageHd = dmg, hd
					d2.Mode, d2.Bound, d2.Runs = "dfs", 3, run.Pick(2500, 30000)
					scs = append(scs, &d2)
				}
			}
			// skipped-block outcomes
			sk := base(side, 2, 1)
			sk.From, sk.To = 2, 3 // the only block is skipped, task 2 meets the end marker
			sk.Mode, sk.Bound, sk.Runs = "dfs", -1, 60000
			scs = append(scs, &sk)
			sk2 := base(side, 2, 4)
			sk2.From, sk2.To = 2, 4
			sk2.Mode, sk2.Bound, sk2.Runs = "dfs", 3, run.Pick(1500, 20000)
			scs = append(scs, &sk2)
			// batches consisting entirely of skipped blocks (the reader starts another batch within the same call)
			for _, ft := range [][2]int{{3, 0}, {4, 5}, {5, 6}, {6, 0}} {
				sk3 := base(side, 2, 5)
				sk3.From, sk3.To = ft[0], ft[1]
				sk3.Mode, sk3.Bound, sk3.Runs = "dfs", 2, run.Pick(600, 8000)
				scs = append(scs, &sk3)
			}
			// listeners attached (the tasks run extra code between their protocol steps)
			ls := base(side, 2, 1)
			ls.Listen = true
			ls.Mode, ls.Bound, ls.Runs = "dfs", -1, 60000
			scs = append(scs, &ls)
			ls2 := base(side, 2, 3)
			ls2.Listen = true
			ls2.Mode, ls2.Bound, ls2.Runs = "dfs", 3, run.Pick(2000, 20000)
			scs = append(scs, &ls2)
		}
	}
	if run.Thorough() {
		// unbounded DFS for one batch of 3 tasks (no fault; a failing middle task; a failing first task)
		for _, side := range []string{"enc", "dec"} {
			nblk := 3
			if side == "dec" {
				nblk = 2 // tasks 1,2 decode, task 3 meets the end marker
			}
			sc := base(side, 3, nblk)
			sc.Mode, sc.Bound, sc.Runs = "dfs", -1, 400000
			scs = append(scs, &sc)
			for _, id := range []int32{1, 2} {
				f := base(side, 3, nblk)
				f.Fault = sched.Fault{ID: id, Step: kio.VerifIOEnd, Nth: 1}
				f.Mode, f.Bound, f.Runs = "dfs", -1, 400000
				scs = append(scs, &f)
			}
		}
	}
	// 2. preemption-bounded DFS for 3 and 4 tasks with every (task, step) fault
	for _, n := range []int{3, 4} {
		for _, side := range []string{"enc", "dec"} {
			steps := encSteps
			if side == "dec" {
				steps = decSteps
			}
			cap := run.Pick(400, 6000)
			sc := base(side, n, n)
			sc.Mode, sc.Bound, sc.Runs = "dfs", 2, cap*2
			scs = append(scs, &sc)
			for id := int32(1); id <= int32(n); id++ {
				for _, st := range steps {
					f := base(side, n, n)
					f.Fault = sched.Fault{ID: id, Step: st, Nth: 1 + int(id)%2}
					if st != kio.VerifSpin {
						f.Fault.Nth = 1
					}
					f.Mode, f.Bound, f.Runs = "dfs", 2, cap
					if n == 4 && !run.Thorough() {
						f.Bound, f.Runs = 1, cap/2
					}
					scs = append(scs, &f)
				}
			}
			if side == "dec" {
				for dmg := 1; dmg <= n; dmg++ {
					d := base(side, n, n+2)
					d.Damage, d.DamageHd = dmg, dmg%2 == 0
					d.Mode, d.Bound, d.Runs = "dfs", 2, cap
					scs = append(scs, &d)
				}
			} else {
				// sink failing inside the shared section (blocks larger than the 256 KiB bitstream buffer)
				for k := 1; k <= 3; k++ {
					s := base(side, n, n)
					s.BlockSz, s.Shape, s.Checksum = 300000-300000%16, "random", 0
					s.SinkFail = k
					s.Mode, s.Bound, s.Runs = "dfs", 1, run.Pick(40, 400)
					scs = append(scs, &s)
				}
			}
		}
	}
	// 3. PCT schedules for 5..16 tasks, several batches, with faults
	for i, n := range []int{5, 8, 16} {
		for _, side := range []string{"enc", "dec"} {
			sc := base(side, n, 2*n+1)
			sc.Mode, sc.Runs = "pct", run.Pick(60, 1500)
			sc.Seed = S + int64(i)
			scs = append(scs, &sc)
			for q := 0; q < run.Pick(4, 24); q++ {
				f := base(side, n, 2*n+1)
				r := core.Derive(S, "c07pct", n, side, q)
				steps := encSteps
				if side == "dec" {
					steps = decSteps
				}
				f.Fault = sched.Fault{ID: int32(1 + r.Intn(2*n)), Step: steps[r.Intn(len(steps))], Nth: 1}
				f.Mode, f.Runs = "pct", run.Pick(25, 300)
				f.Seed = S*31 + int64(q)
				scs = append(scs, &f)
			}
			if side == "dec" {
				d := base(side, n, 2*n+1)
				d.Damage = n/2 + 1
				d.Mode, d.Runs = "pct", run.Pick(40, 600)
				scs = append(scs, &d)
			}
		}
	}
	// 4. free-running histories (random yields/sleeps) checked offline with porcupine against the ticket-lock model
	for i, n := range []int{2, 3, 4, 8, 16} {
		for _, side := range []string{"enc", "dec"} {
			sc := base(side, n, 3*n)
			sc.Mode, sc.Runs = "free", run.Pick(20, 400)
			sc.Seed = S + int64(100+i)
			scs = append(scs, &sc)
			f := base(side, n, 3*n)
			f.Fault = sched.Fault{ID: int32(n/2 + 1), Step: kio.VerifIOEnd, Nth: 1}
			f.Mode, f.Runs = "free", run.Pick(10, 200)
			scs = append(scs, &f)
			if side == "dec" {
				d := base(side, n, 3*n)
				d.BlockSz, d.Shape = 65536, "html" // real decoding work after the early publish
				d.Cfg = [2]string{"LZ", "HUFFMAN"}
				d.Damage = 2
				d.Mode, d.Runs = "free", run.Pick(20, 400)
				scs = append(scs, &d)
			}
		}
	}
	return scs
}

// runProtoCheck runs scenarios in child processes and folds the summaries into the run
func runProtoCheck(run *core.Run, prop string, scs []*protoScenario) {
	cases := make([]any, len(scs))
	for i := range scs {
		cases[i] = scs[i]
	}
	results := core.RunIsolated("proto", cases, core.IsoOpts{Workers: 14, WallBudget: 20 * time.Minute})
	orders := map[uint64]bool{}
	var costs []string
	defer func() {
		sort.Sort(sort.Reverse(sort.StringSlice(costs)))
		if len(costs) > 15 {
			costs = costs[:15]
		}
		run.SetExtra("most_expensive_scenarios", costs)
	}()
	for i, r := range results {
		sc := scs[i]
		desc := fmt.Sprintf("%s n=%d blocks=%d fault=%v sink=%d dmg=%d from=%d to=%d mode=%s", sc.Side, sc.Tasks, sc.Blocks, sc.Fault, sc.SinkFail, sc.Damage, sc.From, sc.To, sc.Mode)
		switch r.Status {
		case "crash":
			run.Eval(1)
			run.Violate(prop+" process-death side="+sc.Side, "scheduler child died: "+core.Trunc(r.Detail, 1200), sc)
			continue
		case "timeout", "cpu":
			run.Eval(1)
			run.Inconclusive("watchdog on scenario " + desc)
			continue
		}
		var sum protoSummary
		json.Unmarshal(r.Out, &sum)
		run.Eval(sum.Executions)
		costs = append(costs, fmt.Sprintf("%7dms %7d exec %6d orders  %s", sum.WallMs, sum.Executions, len(sum.Orders), desc))
		for _, h := range sum.Orders {
			if !orders[h] {
				orders[h] = true
				run.Nontrivial(fmt.Sprintf("%016x", h))
			}
		}
		run.Count("executions_"+sc.Mode, sum.Executions)
		run.Count("executions_with_fault_fired", sum.FaultFired)
		run.Count("histories_checked_with_porcupine", sum.Histories)
		if sum.PorcUnknown > 0 {
			run.Count("porcupine_timeouts", sum.PorcUnknown)
			run.Inconclusive(fmt.Sprintf("porcupine timeout on %d histories of %s", sum.PorcUnknown, desc))
		}
		for k, v := range sum.Events {
			run.Count("event_"+k, v)
		}
		if sum.Exhausted {
			run.Count("scenarios_enumerated_exhaustively", 1)
			run.Seen("exhaustive_scenarios", fmt.Sprintf("%s (%d schedules)", desc, sum.Executions))
		}
		if sum.MaxOverlap > 1 {
			run.Count("scenarios_with_concurrent_tasks", 1)
		}
		if i%17 == 0 && sum.SampleTrace != nil {
			run.Sample(map[string]any{"scenario": desc, "trace": sum.SampleTrace})
		}
		for vi := range sum.Violations {
			v := &sum.Violations[vi]
			if v.Kind == "harness" {
				run.Inconclusive("harness: " + v.Detail)
				continue
			}
			run.Violate(protoSig(prop, v), fmt.Sprintf("[%s] %s", desc, v.Detail), v.Sched)
		}
	}
}

func c07(run *core.Run, replay string) {
	run.SetRule("the step hook blocks every block task at every protocol step; a controller releases exactly one task at a time, so the recorded event order is the execution order. " +
		"Schedules: exhaustive DFS over ALL interleavings for 2 tasks (both sides; no fault, every (task, step) injected failure, damaged/forged blocks, end-of-stream and skipped-block outcomes), " +
		"preemption-bounded DFS for 3-4 tasks, PCT for 5-16 tasks, plus free-running histories with random yields checked offline with porcupine against a ticket-lock-with-cancel model. " +
		"Online automaton: mutual exclusion, increasing block order, token value at acquisition, no acquisition after a cancel, every task exits (logical stuck detection), a failed task makes the API call return an error. " +
		"distinct_nontrivial = number of DISTINCT hand-off interleavings observed (hash of the ordered non-spin events)")
	run.Assume("atomicity is at hook-step granularity in controlled mode (code between two hooks runs uninterrupted); finer interleavings are left to the free-running and race-detector runs")
	if replay != "" {
		var sc protoScenario
		if err := core.LoadReplay(replay, &sc); err != nil {
			run.Violate("C07 replay-unreadable", err.Error(), nil)
			return
		}
		sum := runProtoScenario(&sc)
		run.Eval(sum.Executions)
		fmt.Printf("replay: executions=%d fired=%d trace=%v\n", sum.Executions, sum.FaultFired, sum.SampleTrace)
		for i := range sum.Violations {
			v := &sum.Violations[i]
			run.Violate(protoSig("C07", v), v.Detail, v.Sched)
		}
		return
	}
	runProtoCheck(run, "C07", c07Scenarios(run))
}

func init() { register("C07", "exploration", c07) }
