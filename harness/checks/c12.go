package checks

import (
	"bytes"
	"fmt"

	kanzi "github.com/flanglet/kanzi-go/v2"
	"github.com/flanglet/kanzi-go/v2/bitstream"
	"github.com/flanglet/kanzi-go/v2/entropy"

	"verifharness/core"
	"verifharness/gen"
	"verifharness/kz"
)

// C12: entropy codecs are exact inverse pairs and consume exactly the bits written.

type entCase struct {
	Codec   string `json:"codec"`
	Shape   string `json:"shape"`
	Size    int    `json:"size"`
	Seed    int64  `json:"seed"`
	Prefix  int    `json:"prefix"` // bytes written before the block (like the stream layer's block header)
	Second  string `json:"second"` // optional second codec encoded back-to-back in the same bitstream
	Size2   int    `json:"size2"`
	BlockSz uint   `json:"blocksz"`
}

func entCtx(name string, blockSize uint, size int) map[string]any {
	return map[string]any{"entropy": name, "transform": "NONE", "blockSize": blockSize, "jobs": uint(1), "checksum": uint(0),
		"bsVersion": uint(6), "size": uint(size), "headerless": false, "fileSize": int64(0)}
}

func sizeClass(n int) string {
	switch {
	case n == 0:
		return "empty"
	case n < 64:
		return "tiny"
	case n < 16384:
		return "sub-chunk"
	case n <= 65536:
		return "chunk-boundary"
	default:
		return "multi-chunk"
	}
}

func legalBlockSize(n int) uint {
	b := (n + 15) &^ 15
	if b < 1024 {
		b = 1024
	}
	return uint(b)
}

func runEntCase(c *entCase) (kind, detail string) {
	data := gen.Make(c.Shape, c.Size, c.Seed)
	var data2 []byte
	if c.Second != "" {
		data2 = gen.Make("text", c.Size2, c.Seed+1)
	}
	bsz := c.BlockSz
	if bsz == 0 {
		bsz = legalBlockSize(max(c.Size, c.Size2))
	}
	sink := &kz.Sink{}
	obs, _ := bitstream.NewDefaultOutputBitStream(sink, 16384)
	pre := make([]byte, c.Prefix)
	core.NewRng(uint64(c.Seed) + 99).Fill(pre)
	if c.Prefix > 0 {
		obs.WriteArray(pre, uint(8*c.Prefix))
	}
	var marks []uint64
	encode := func(name string, d []byte) (string, string) {
		et, err := entropy.GetType(name)
		if err != nil {
			return "bad-name", err.Error()
		}
		var ee kanzi.EntropyEncoder
		var werr error
		p := catch(func() {
			ee, err = entropy.NewEntropyEncoder(obs, entCtx(name, bsz, len(d)), et)
			if err != nil {
				return
			}
			_, werr = ee.Write(d)
			ee.Dispose()
		})
		if p != nil {
			return "panic-encode", fmt.Sprintf("%s encoder on %d bytes: %v", name, len(d), p)
		}
		if err != nil {
			return "encoder-constructor", err.Error()
		}
		if werr != nil {
			return "encode-error", werr.Error()
		}
		marks = append(marks, obs.Written())
		return "", ""
	}
	if k, d := encode(c.Codec, data); k != "" {
		return k, d
	}
	if c.Second != "" {
		if k, d := encode(c.Second, data2); k != "" {
			return k + "-second", d
		}
	}
	const sentinel = 0xC0FFEE1234567890
	obs.WriteBits(sentinel, 64)
	obs.Close()

	ibs, _ := bitstream.NewDefaultInputBitStream(&kz.Source{Data: sink.Bytes()}, 16384)
	if c.Prefix > 0 {
		got := make([]byte, c.Prefix)
		ibs.ReadArray(got, uint(8*c.Prefix))
		if !bytes.Equal(got, pre) {
			return "harness", "prefix read back differs"
		}
	}
	decode := func(name string, d []byte, mark uint64) (string, string) {
		et, _ := entropy.GetType(name)
		out := make([]byte, len(d))
		var err, rerr error
		p := catch(func() {
			var ed kanzi.EntropyDecoder
			ed, err = entropy.NewEntropyDecoder(ibs, entCtx(name, bsz, len(d)), et)
			if err != nil {
				return
			}
			_, rerr = ed.Read(out)
			ed.Dispose()
		})
		if p != nil {
			return "panic-decode", fmt.Sprintf("%s decoder on %d bytes: %v", name, len(d), p)
		}
		if err != nil {
			return "decoder-constructor", err.Error()
		}
		if rerr != nil {
			return "decode-error", rerr.Error()
		}
		if !bytes.Equal(out, d) {
			k := 0
			for k < len(d) && out[k] == d[k] {
				k++
			}
			return "mismatch", fmt.Sprintf("%s: decoded block differs from the %d-byte original at offset %d, no error reported", name, len(d), k)
		}
		if rd := ibs.Read(); rd != mark {
			return "bits-consumed", fmt.Sprintf("%s on %d bytes: encoder wrote up to bit %d, decoder consumed up to bit %d", name, len(d), mark, rd)
		}
		return "", ""
	}
	if k, d := decode(c.Codec, data, marks[0]); k != "" {
		return k, d
	}
	if c.Second != "" {
		if k, d := decode(c.Second, data2, marks[1]); k != "" {
			return k + "-second", d
		}
	}
	var s uint64
	if p := catch(func() { s = ibs.ReadBits(64) }); p != nil || s != sentinel {
		return "sentinel", fmt.Sprintf("sentinel after the block read as %x (panic %v)", s, p)
	}
	return "", ""
}

func c12(run *core.Run, replay string) {
	run.SetRule("each entropy codec encodes a generated block into a bitstream after a byte-aligned prefix, Dispose, then a 64-bit sentinel; the decoder must return the block, " +
		"have consumed exactly Written() bits, and the sentinel must read back; sizes straddle every codec's thresholds/chunk sizes; shapes include the frequency-scaling stress families; " +
		"optionally a second codec instance is run back-to-back in the same bitstream. non-trivial = block length >= 2 (codec actually codes symbols); distinct = (codec, shape, size, prefix, second)")
	installNormalizeMonitor()
	check := func(c *entCase) {
		if core.Hangs() >= 3 {
			return
		}
		scale := 1
		if c.Size > 8<<20 {
			scale = 15 // tens of MiB through a bit-wise coder take tens of seconds on a loaded machine
		}
		g, returned := guardedFor(scale, func() kd { k, d := runEntCase(c); return kd{k, d, true} })
		if !returned {
			run.Eval(1)
			run.Violate("C12 hang codec="+c.Codec, fmt.Sprintf("shape=%s size=%d: encode/decode never returned (60 s, then 180 s)", c.Shape, c.Size), c)
			return
		}
		k, d := g.k, g.d
		run.Eval(1)
		if c.Size >= 2 {
			run.Nontrivial(fmt.Sprintf("%s|%s|%d|%d|%s|%d", c.Codec, c.Shape, c.Size, c.Prefix, c.Second, c.Size2))
		}
		run.Seen("codec_x_shape", c.Codec+"/"+c.Shape)
		run.Seen("codec_x_sizeclass", c.Codec+"/"+sizeClass(c.Size))
		if k != "" {
			sig := fmt.Sprintf("C12 %s codec=%s size=%s", k, c.Codec, sizeClass(c.Size))
			if c.Second != "" {
				sig += " second=" + c.Second
			}
			run.Violate(sig, fmt.Sprintf("shape=%s size=%d: %s", c.Shape, c.Size, d), c)
		}
	}
	if replay != "" {
		var c entCase
		if err := core.LoadReplay(replay, &c); err != nil {
			run.Violate("C12 replay-unreadable", err.Error(), nil)
			return
		}
		check(&c)
		reportNormalizeMonitor(run)
		return
	}
	var cases []*entCase
	sizes := []int{0, 1, 2, 3, 4, 5, 7, 8, 15, 16, 17, 31, 32, 33, 63, 64, 65, 127, 128, 255, 256, 257, 1023, 1024, 1025, 4096, 8191, 16383, 16384, 16385, 20000, 32767, 32768, 32769, 49151, 49153, 65535, 65536, 65537, 100000}
	shapes := []string{"text", "random", "raredom", "ramp255", "ramp256", "skewed", "zeros", "runs", "smallalpha", "dna", "cjk", "wav", "elfx86", "periodic", "sorted", "base64", "numeric", "constchunks", "longruns"}
	for _, codec := range kz.Entropies {
		for si, sz := range sizes {
			for hi, sh := range shapes {
				if kz.Heavy(codec) && sz > 20000 {
					continue
				}
				if !run.Thorough() {
					// covering design: every (codec,size) with 4 shapes, every (codec,shape) with >= 9 sizes
					if (si+hi)%4 != 0 && !(sz == 0 && hi == 0) {
						continue
					}
				}
				cases = append(cases, &entCase{Codec: codec, Shape: sh, Size: sz, Seed: run.Seed*131 + int64(si*17+hi), Prefix: 2 + (si+hi)%12})
			}
		}
		// frequency-scaling families as real blocks, many instances around the chunk sizes
		nf := run.Pick(60, 600)
		for i := 0; i < nf; i++ {
			r := core.Derive(run.Seed, "c12fam", codec, i)
			sz := []int{300, 1000, 4000, 16384, 16385, 20000, 32768, 40000}[r.Intn(8)] + r.Intn(50)
			if kz.Heavy(codec) && sz > 20000 {
				sz = 5000 + r.Intn(100)
			}
			sh := []string{"raredom", "ramp255", "skewed", "smallalpha"}[r.Intn(4)]
			cases = append(cases, &entCase{Codec: codec, Shape: sh, Size: sz, Seed: int64(r.Intn(1 << 30)), Prefix: 2 + r.Intn(12)})
		}
		// alphabets of exactly k symbols (header group boundaries of the static coders)
		for ki, k := range []int{1, 2, 3, 5, 6, 7, 8, 9, 15, 16, 17, 31, 32, 33, 62, 63, 64, 65, 66, 127, 128, 129, 254, 255, 256} {
			for _, sz := range []int{300, 600, 5000, 20000} {
				if kz.Heavy(codec) && (sz > 5000 || ki%3 != 0) {
					continue
				}
				if !run.Thorough() && (ki+sz/300)%2 == 1 && k != 64 && k != 63 && k != 65 {
					continue
				}
				cases = append(cases, &entCase{Codec: codec, Shape: fmt.Sprintf("alpha:%d", k), Size: sz, Seed: run.Seed + int64(ki), Prefix: 2 + ki%12})
			}
		}
		// staircase histograms (Fibonacci-like counts): code length limiting and frequency renormalisation of the static coders,
		// with chunk totals around the renormalisation scales
		for q, sz := range []int{2047, 2048, 2049, 4096, 1024, 16384, 18432, 18433, 256, 512, 65536} {
			for sd := 0; sd < run.Pick(6, 30); sd++ {
				if kz.Heavy(codec) && (sd > 0 || sz > 20000) {
					continue
				}
				cases = append(cases, &entCase{Codec: codec, Shape: []string{"staircase", "staircase2"}[sd%2], Size: sz, Seed: run.Seed*29 + int64(sd*11+q), Prefix: 2 + (q+sd)%12})
			}
		}
		// unevenly compressible quarters of a chunk (codecs that code a chunk as several independent fragments)
		for q, sz := range []int{16384, 15000, 16383, 32768, 37768, 65536 + 15100, 8192} {
			for sd := 0; sd < run.Pick(4, 12); sd++ {
				if kz.Heavy(codec) && (sd > 0 || sz > 20000) {
					continue
				}
				cases = append(cases, &entCase{Codec: codec, Shape: "clusterq", Size: sz, Seed: run.Seed*37 + int64(sd), Prefix: 2 + (q+sd)%12})
			}
		}
		if codec == "RANGE" || codec == "ANS0" || codec == "ANS1" {
			// exact power-of-two frequencies with a rare symbol after four ordinary ones: the bottom edge of the coder's range
			for sd := 0; sd < run.Pick(40, 400); sd++ {
				cases = append(cases, &entCase{Codec: codec, Shape: "rangeedge", Size: []int{32768, 65536, 98304}[sd%3], Seed: run.Seed*43 + int64(sd), Prefix: 2 + sd%11})
			}
		}
		if codec == "HUFFMAN" {
			// chunk totals exactly equal to the scale the code length limiter renormalises to (2048), many histograms
			for sd := 0; sd < run.Pick(150, 1500); sd++ {
				for q, sz := range []int{2048, 16384 + 2048} {
					cases = append(cases, &entCase{Codec: codec, Shape: []string{"staircase2", "staircase"}[(sd/2)%2], Size: sz, Seed: run.Seed*31 + int64(sd*3+q), Prefix: 2 + sd%9})
				}
			}
		}
		// back-to-back instances
		for i, second := range kz.Entropies {
			for _, sz := range []int{1, 64, 1500, 17000} {
				if kz.Heavy(codec) && sz > 5000 {
					continue
				}
				cases = append(cases, &entCase{Codec: codec, Shape: []string{"text", "raredom", "random"}[i%3], Size: sz, Seed: run.Seed + int64(i), Prefix: 3, Second: second, Size2: 700})
			}
		}
		// tiny trailing chunks after a full 4 MiB chunk (codecs whose coder state crosses chunks), incompressible data
		if codec == "FPAQ" || codec == "ANS1" {
			for q, tail := range []int{1, 2, 3, 31, 33} {
				for sd := 0; sd < run.Pick(2, 4); sd++ {
					cases = append(cases, &entCase{Codec: codec, Shape: "random", Size: 4<<20 + tail, Seed: run.Seed*17 + int64(sd), Prefix: 2 + q})
				}
			}
		}
		// the 64 MiB threshold above which the binary coders split a block into 8 chunks (encoder and decoder must agree on it)
		if codec == "CM" || (run.Thorough() && kz.Heavy(codec)) {
			for q, sz := range []int{1<<26 - 1, 1 << 26, 1<<26 + 9} {
				if codec != "CM" && q != 1 {
					continue
				}
				cases = append(cases, &entCase{Codec: codec, Shape: []string{"skewed", "text", "runs"}[q], Size: sz, Seed: run.Seed + int64(q), Prefix: 4 + q})
			}
		}
		// large block sizes in the context (hash sizing of TPAQ/TPAQX) and multi-chunk for the 4 MiB chunk codecs
		cases = append(cases, &entCase{Codec: codec, Shape: "text", Size: 30000, Seed: run.Seed, Prefix: 5, BlockSz: 4 << 20})
		cases = append(cases, &entCase{Codec: codec, Shape: "text", Size: 12000, Seed: run.Seed, Prefix: 5, BlockSz: 64 << 20})
		if !kz.Heavy(codec) {
			big := []int{4<<20 - 1, 4 << 20, 4<<20 + 1}
			if !run.Thorough() {
				big = []int{4<<20 + 1}
			}
			for _, sz := range big {
				cases = append(cases, &entCase{Codec: codec, Shape: "html", Size: sz, Seed: run.Seed, Prefix: 9})
			}
		} else if run.Thorough() {
			cases = append(cases, &entCase{Codec: codec, Shape: "html", Size: 1 << 20, Seed: run.Seed, Prefix: 9})
		}
	}
	core.ParallelDo(len(cases), 0, func(i int) { check(cases[i]) })
	for i := 0; i < 6; i++ {
		run.Sample(cases[(i*7919+11)%len(cases)])
	}
	reportNormalizeMonitor(run)
}

func init() { register("C12", "exploration", c12) }
