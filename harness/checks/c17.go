package checks

import (
	"bytes"
	"fmt"
	"io"

	kanzi "github.com/flanglet/kanzi-go/v2"
	kio "github.com/flanglet/kanzi-go/v2/io"

	"verifharness/core"
	"verifharness/gen"
	"verifharness/kz"
)

// C17: Writer / Reader call sequences checked step by step against a small reference state machine.

type lcOp struct {
	K string `json:"k"` // W write, C close, G getwritten/getread, L add listener, U remove listener, R read
	N int    `json:"n,omitempty"`
}

type lcCase struct {
	Side  string `json:"side"` // writer | reader
	Cfg   kz.Cfg `json:"cfg"`
	Shape string `json:"shape"`
	Seed  int64  `json:"seed"`
	Size  int    `json:"size"` // reader: size of the original data
	DecJ  uint   `json:"dec_jobs"`
	Ops   []lcOp `json:"ops"`
	// reader: the source ends early after CutPermille/1000 of the stream (0 = complete stream) plus CutAdd bytes: the calls
	// then fail, the counters must stay monotone and within the bytes the source really has
	CutPermille int `json:"cut_permille,omitempty"`
	CutAdd      int `json:"cut_add,omitempty"`
}

type cntListener struct{ n int }

func (l *cntListener) ProcessEvent(evt *kanzi.Event) { l.n++ }

func runWriterProgram(c *lcCase) (kind, detail string) {
	sink := &kz.Sink{}
	w, err := kio.NewWriter(sink, c.Cfg.Transform, c.Cfg.Entropy, c.Cfg.BlockSize, c.Cfg.Jobs, c.Cfg.Checksum, 0, false)
	if err != nil {
		return "constructor", err.Error()
	}
	total := 0
	for _, op := range c.Ops {
		if op.K == "W" {
			total += op.N
		}
	}
	data := gen.Make(c.Shape, total, c.Seed)
	var accepted []byte
	off := 0
	closed := false
	lastWritten := uint64(0)
	lst := &cntListener{}
	fail := func(i int, op lcOp, k, d string) (string, string) {
		st := "open"
		if closed {
			st = "closed"
		}
		return fmt.Sprintf("%s op=%s state=%s", k, op.K, st), fmt.Sprintf("step %d %s(%d): %s", i, op.K, op.N, d)
	}
	for i, op := range c.Ops {
		var p any
		switch op.K {
		case "W":
			chunk := data[off : off+op.N]
			off += op.N
			before := sink.Len()
			var n int
			var err error
			p = catch(func() { n, err = w.Write(chunk) })
			if p != nil {
				return fail(i, op, "panic", fmt.Sprint(p))
			}
			if closed {
				if err == nil {
					return fail(i, op, "write-after-close-accepted", fmt.Sprintf("returned (%d, nil)", n))
				}
				if n != 0 || sink.Len() != before {
					return fail(i, op, "write-after-close-side-effect", fmt.Sprintf("returned n=%d, sink grew by %d", n, sink.Len()-before))
				}
			} else {
				if err != nil {
					return fail(i, op, "write-error-healthy-sink", err.Error())
				}
				if n != op.N {
					return fail(i, op, "write-short-count", fmt.Sprintf("returned %d", n))
				}
				accepted = append(accepted, chunk...)
			}
		case "C":
			before := sink.Len()
			var err error
			p = catch(func() { err = w.Close() })
			if p != nil {
				return fail(i, op, "panic", fmt.Sprint(p))
			}
			if err != nil {
				return fail(i, op, "close-error-healthy-sink", err.Error())
			}
			if closed && sink.Len() != before {
				return fail(i, op, "repeated-close-side-effect", fmt.Sprintf("sink grew by %d", sink.Len()-before))
			}
			closed = true
			if gw := w.GetWritten(); gw != uint64(sink.Len()) {
				return fail(i, op, "getwritten-after-close", fmt.Sprintf("GetWritten()=%d, sink received %d bytes", gw, sink.Len()))
			}
		case "G":
			var gw uint64
			p = catch(func() { gw = w.GetWritten() })
			if p != nil {
				return fail(i, op, "panic", fmt.Sprint(p))
			}
			if gw < lastWritten {
				return fail(i, op, "getwritten-decreased", fmt.Sprintf("%d after %d", gw, lastWritten))
			}
			lastWritten = gw
			if closed && gw != uint64(sink.Len()) {
				return fail(i, op, "getwritten-after-close", fmt.Sprintf("GetWritten()=%d, sink received %d bytes", gw, sink.Len()))
			}
		case "L":
			w.AddListener(lst)
		case "U":
			w.RemoveListener(lst)
		}
	}
	if !closed {
		if err := w.Close(); err != nil {
			return "close-error-healthy-sink op=C state=open", err.Error()
		}
		if gw := w.GetWritten(); gw != uint64(sink.Len()) {
			return "getwritten-after-close op=C state=open", fmt.Sprintf("GetWritten()=%d, sink received %d bytes", gw, sink.Len())
		}
	}
	rr := kz.Decompress(sink.Bytes(), c.DecJ, nil)
	if rr.Err != nil {
		return "final-stream-undecodable", fmt.Sprintf("%d accepted bytes: %v", len(accepted), rr.Err)
	}
	if !bytes.Equal(rr.Out, accepted) {
		return "final-stream-content", fmt.Sprintf("decodes to %d bytes, %d were accepted", len(rr.Out), len(accepted))
	}
	return "", ""
}

func runReaderProgram(c *lcCase) (kind, detail string) {
	data := gen.Make(c.Shape, c.Size, c.Seed)
	stream, _, err := kz.Compress(data, c.Cfg, nil)
	if err != nil {
		return "", "" // C01's business
	}
	cut := false
	if c.CutPermille > 0 {
		k := len(stream)*c.CutPermille/1000 + c.CutAdd
		if k > 30 && k < len(stream) {
			stream = stream[:k]
			cut = true
		}
	}
	src := &kz.Source{Data: stream}
	r, err := kio.NewReader(src, c.DecJ)
	if err != nil {
		if cut {
			return "", ""
		}
		return "constructor", err.Error()
	}
	pos := 0
	closed, eof := false, false
	lastRead := uint64(0)
	zero := 0
	lst := &cntListener{}
	fail := func(i int, op lcOp, k, d string) (string, string) {
		st := "open"
		if closed {
			st = "closed"
		} else if eof {
			st = "eof"
		}
		return fmt.Sprintf("%s op=%s state=%s", k, op.K, st), fmt.Sprintf("step %d %s(%d): %s", i, op.K, op.N, d)
	}
	for i, op := range c.Ops {
		var p any
		switch op.K {
		case "R":
			buf := make([]byte, op.N)
			var n int
			var err error
			p = catch(func() { n, err = r.Read(buf) })
			if p != nil {
				return fail(i, op, "panic", fmt.Sprint(p))
			}
			if closed {
				if err == nil || err == io.EOF {
					return fail(i, op, "read-after-close-accepted", fmt.Sprintf("returned (%d, %v)", n, err))
				}
				if n != 0 {
					return fail(i, op, "read-after-close-side-effect", fmt.Sprintf("returned %d bytes", n))
				}
				continue
			}
			if n < 0 || n > op.N {
				return fail(i, op, "read-count-out-of-range", fmt.Sprint(n))
			}
			if pos+n > len(data) || !bytes.Equal(buf[:n], data[pos:pos+n]) {
				return fail(i, op, "read-wrong-bytes", fmt.Sprintf("%d bytes at offset %d do not match the original (%d bytes)", n, pos, len(data)))
			}
			pos += n
			if err == io.EOF {
				if cut {
					return fail(i, op, "eof-on-truncated-stream", fmt.Sprintf("io.EOF at offset %d of %d although the source ended early", pos, len(data)))
				}
				if n != 0 || pos != len(data) {
					return fail(i, op, "eof-premature", fmt.Sprintf("io.EOF with n=%d at offset %d of %d", n, pos, len(data)))
				}
				eof = true
			} else if err != nil {
				if !cut {
					return fail(i, op, "read-error-valid-stream", err.Error())
				}
			} else if eof && op.N > 0 {
				return fail(i, op, "data-after-eof", fmt.Sprintf("(%d, nil) after io.EOF", n))
			}
			if n == 0 && err == nil && op.N > 0 && !cut {
				zero++
				if zero > 3 {
					return fail(i, op, "read-returns-nothing", "Read(n>0) returned (0, nil) repeatedly")
				}
			} else {
				zero = 0
			}
		case "C":
			var err error
			p = catch(func() { err = r.Close() })
			if p != nil {
				return fail(i, op, "panic", fmt.Sprint(p))
			}
			if err != nil {
				return fail(i, op, "close-error", err.Error())
			}
			closed = true
		case "G":
			var gr uint64
			p = catch(func() { gr = r.GetRead() })
			if p != nil {
				return fail(i, op, "panic", fmt.Sprint(p))
			}
			if gr < lastRead && !closed {
				return fail(i, op, "getread-decreased", fmt.Sprintf("%d after %d", gr, lastRead))
			}
			if gr > uint64(len(stream)) {
				return fail(i, op, "getread-beyond-stream", fmt.Sprintf("%d > stream length %d", gr, len(stream)))
			}
			if !closed {
				lastRead = gr
			}
		case "L":
			r.AddListener(lst)
		case "U":
			r.RemoveListener(lst)
		}
	}
	return "", ""
}

func c17(run *core.Run, replay string) {
	run.SetRule("random call programs over Writer {Write(len incl. 0, 1, B-1, B, B+1, jobs*B), Close (repeated, at any point), GetWritten, Add/RemoveListener} and Reader {Read(len incl. 0), Close, GetRead, listeners} " +
		"run step by step against a reference state machine (healthy in-memory sink/source); final stream must decode to exactly the accepted bytes; " +
		"non-trivial = program contains a Close followed by at least one more call, or a zero-length call, or a Writer closed without Write; distinct = distinct op sequence + config")
	check := func(c *lcCase) {
		if core.Hangs() >= 3 {
			return
		}
		g, returned := guarded(func() kd {
			if c.Side == "writer" {
				k, d := runWriterProgram(c)
				return kd{k, d, true}
			}
			k, d := runReaderProgram(c)
			return kd{k, d, true}
		})
		if !returned {
			run.Eval(1)
			run.Violate("C17 "+c.Side+" hang", "the call program never returned (60 s, then 180 s)", c)
			return
		}
		k, d := g.k, g.d
		run.Eval(1)
		sig := ""
		closeSeen, after, zeroLen, writes := false, false, false, 0
		for _, op := range c.Ops {
			sig += fmt.Sprintf("%s%d,", op.K, op.N)
			if closeSeen {
				after = true
			}
			if op.K == "C" {
				closeSeen = true
			}
			if (op.K == "W" || op.K == "R") && op.N == 0 {
				zeroLen = true
			}
			if op.K == "W" && !closeSeen {
				writes++
			}
		}
		if after || zeroLen || (c.Side == "writer" && writes == 0) {
			run.Nontrivial(fmt.Sprintf("%s|%v|%d|%s", c.Side, c.Cfg, c.DecJ, sig))
		}
		run.Count("programs_"+c.Side, 1)
		run.Count("ops", len(c.Ops))
		if k != "" {
			run.Violate("C17 "+c.Side+" "+k, d, c)
		}
	}
	if replay != "" {
		var c lcCase
		if err := core.LoadReplay(replay, &c); err != nil {
			run.Violate("C17 replay-unreadable", err.Error(), nil)
			return
		}
		check(&c)
		return
	}
	var cases []*lcCase
	cfgs := []kz.Cfg{cfg("NONE", "NONE", 1024, 1, 0), cfg("LZ", "HUFFMAN", 1024, 2, 32), cfg("BWT", "ANS0", 4096, 3, 64), cfg("TEXT+RLT", "FPAQ", 1024, 4, 0), cfg("ROLZ", "NONE", 2048, 2, 32), cfg("LZX", "RANGE", 1024, 4, 64)}
	np := run.Pick(3000, 40000)
	for i := 0; i < np; i++ {
		r := core.Derive(run.Seed, "c17", i)
		cf := cfgs[r.Intn(len(cfgs))]
		B := int(cf.BlockSize)
		c := &lcCase{Cfg: cf, Shape: []string{"text", "html", "runs", "random"}[r.Intn(4)], Seed: int64(r.Intn(1 << 30)), DecJ: uint(1 + r.Intn(4))}
		nops := 1 + r.Intn(14)
		lens := []int{0, 1, 2, 15, 16, B - 1, B, B + 1, int(cf.Jobs) * B, int(cf.Jobs)*B + 1, 2*int(cf.Jobs)*B + 17, 100, 3 * B}
		if i%2 == 0 {
			c.Side = "writer"
			for k := 0; k < nops; k++ {
				switch x := r.Intn(20); {
				case x < 10:
					c.Ops = append(c.Ops, lcOp{"W", lens[r.Intn(len(lens))]})
				case x < 13:
					c.Ops = append(c.Ops, lcOp{"C", 0})
				case x < 17:
					c.Ops = append(c.Ops, lcOp{"G", 0})
				case x < 19:
					c.Ops = append(c.Ops, lcOp{"L", 0})
				default:
					c.Ops = append(c.Ops, lcOp{"U", 0})
				}
			}
		} else {
			c.Side = "reader"
			c.Size = []int{0, 1, 15, 100, B - 1, B, B + 1, 3*B + 5, 9*B + 1, 20 * B}[r.Intn(10)]
			if i%6 == 1 {
				// the source ends early (any length, not only multiples of 8): errors are expected, the counters still behave
				c.Size = []int{3*B + 5, 9*B + 1, 20 * B, 300 * B}[r.Intn(4)]
				c.CutPermille = 1 + r.Intn(999)
				c.CutAdd = r.Intn(16)
			}
			for k := 0; k < nops+6; k++ {
				switch x := r.Intn(20); {
				case x < 12:
					c.Ops = append(c.Ops, lcOp{"R", append(lens, 50000)[r.Intn(len(lens)+1)]})
				case x < 14:
					c.Ops = append(c.Ops, lcOp{"C", 0})
				case x < 18:
					c.Ops = append(c.Ops, lcOp{"G", 0})
				case x < 19:
					c.Ops = append(c.Ops, lcOp{"L", 0})
				default:
					c.Ops = append(c.Ops, lcOp{"U", 0})
				}
			}
			if r.Intn(3) == 0 {
				// drain to EOF then keep calling
				for k := 0; k < 30; k++ {
					c.Ops = append(c.Ops, lcOp{"R", 4096})
				}
				c.Ops = append(c.Ops, lcOp{"R", 10}, lcOp{"G", 0}, lcOp{"R", 0}, lcOp{"C", 0}, lcOp{"R", 10}, lcOp{"C", 0}, lcOp{"G", 0})
			}
		}
		cases = append(cases, c)
	}
	// directed: close without write, double close, write after close
	for _, cf := range cfgs {
		cases = append(cases, &lcCase{Side: "writer", Cfg: cf, Shape: "text", DecJ: 2, Ops: []lcOp{{"C", 0}, {"G", 0}, {"C", 0}, {"W", 10}, {"G", 0}, {"C", 0}}})
		cases = append(cases, &lcCase{Side: "writer", Cfg: cf, Shape: "text", DecJ: 1, Ops: []lcOp{{"W", 0}, {"G", 0}, {"W", 0}, {"C", 0}, {"C", 0}}})
		cases = append(cases, &lcCase{Side: "writer", Cfg: cf, Shape: "text", DecJ: 1, Ops: []lcOp{{"G", 0}, {"W", int(cf.BlockSize) * int(cf.Jobs)}, {"G", 0}, {"W", 1}, {"G", 0}, {"C", 0}, {"G", 0}, {"W", 5}, {"W", 0}, {"C", 0}}})
	}
	core.ParallelDo(len(cases), 0, func(i int) { check(cases[i]) })
	for i := 0; i < 6; i++ {
		run.Sample(cases[(i*7919+1)%len(cases)])
	}
}

func init() { register("C17", "exploration", c17) }
