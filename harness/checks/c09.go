package checks

import (
	"fmt"

	kio "github.com/flanglet/kanzi-go/v2/io"

	"verifharness/container"
	"verifharness/core"
	"verifharness/kz"
)

// C09: every strict prefix of a valid stream is reported as an error, never as a complete stream.

type cutCase struct {
	R    recipe `json:"recipe"`
	Cut  int    `json:"cut"`
	Jobs uint   `json:"jobs"`
	From int    `json:"from,omitempty"` // block range given to the Reader (0 = none): cuts inside skipped blocks
	To   int    `json:"to,omitempty"`
}

func runCutCase(c *cutCase) (kind, detail string, ok bool) {
	_, stream, err := c.R.build()
	if err != nil {
		return "", "", false
	}
	if c.Cut >= len(stream) {
		return "", "", false
	}
	var hc *kz.Cfg
	if c.R.Cfg.Headerless {
		cf := c.R.Cfg
		hc = &cf
	}
	var rr kz.ReadResult
	if c.From > 0 || c.To > 0 {
		ctx := map[string]any{"jobs": c.Jobs}
		if c.From > 0 {
			ctx["from"] = c.From
		}
		if c.To > 0 {
			ctx["to"] = c.To
		}
		func() {
			defer func() {
				if x := recover(); x != nil {
					rr.Err = &kz.ErrPanic{Val: x}
				}
			}()
			r, err := kio.NewReaderWithCtx(&kz.Source{Data: stream[:c.Cut]}, ctx)
			if err != nil {
				rr.Err = err
				return
			}
			rr = kz.ReadAll(r, []int{3000}, 0, 1<<24)
			r.Close()
		}()
	} else {
		rr = kz.Decompress(stream[:c.Cut], c.Jobs, hc)
	}
	if rr.Err == nil {
		return "undetected", fmt.Sprintf("%d-byte prefix of a %d-byte stream read to io.EOF (%d bytes) without any error (block range from=%d to=%d)", c.Cut, len(stream), len(rr.Out), c.From, c.To), true
	}
	if kz.IsPanic(rr.Err) {
		return "panic-escaped", rr.Err.Error(), true
	}
	return "", "", true
}

func c09(run *core.Run, replay string) {
	run.SetRule("valid streams (recipes below) are cut at EVERY byte position 0..len-1 (small streams: exhaustive) or at block-boundary-focused and random positions (large streams; streams of 130..260 small blocks cut -1..+9 bytes around every block header, covering the 64 alignments of a header in a word) and decoded with jobs 1..3; the exhaustive cuts are repeated with block ranges given to the Reader (cut inside a block that is only skipped); " +
		"oracle: reading must end with an error, never a clean io.EOF; non-trivial = cut inside or after the first block (header intact); distinct = (recipe, cut, jobs)")
	if replay != "" {
		var c cutCase
		if err := core.LoadReplay(replay, &c); err != nil {
			run.Violate("C09 replay-unreadable", err.Error(), nil)
			return
		}
		k, d, _ := runCutCase(&c)
		run.Eval(1)
		if k != "" {
			run.Violate("C09 "+k, d, c)
		}
		return
	}
	S := run.Seed
	small := []recipe{
		{"empty-input", cfg("NONE", "NONE", 1024, 1, 0), "text", 0, S},
		{"empty-input-ck64", cfg("LZ", "HUFFMAN", 1024, 2, 64), "text", 0, S},
		{"tiny-5B", cfg("LZ", "HUFFMAN", 1024, 1, 0), "text", 5, S},
		{"small-block-15B", cfg("BWT", "ANS0", 1024, 1, 32), "text", 15, S},
		{"one-block", cfg("NONE", "NONE", 1024, 1, 0), "text", 1000, S},
		{"exact-2-blocks", cfg("NONE", "NONE", 1024, 2, 0), "random", 2048, S},
		{"multi-none-ck32", cfg("NONE", "NONE", 1024, 3, 32), "text", 5000, S},
		{"multi-lz-huffman", cfg("LZ", "HUFFMAN", 1024, 2, 0), "text", 6000, S},
		{"multi-bwt-ans0-ck64", cfg("BWT", "ANS0", 1024, 4, 64), "html", 5500, S},
		{"text-fpaq", cfg("TEXT", "FPAQ", 4096, 1, 0), "text", 9000, S},
		{"rolz-none", cfg("ROLZ", "NONE", 1024, 2, 32), "repeatblocks", 4000, S},
		{"rlt-range", cfg("RLT+ZRLT", "RANGE", 1024, 2, 0), "runs", 6000, S},
		{"lzp-cm", cfg("LZP", "CM", 1024, 1, 0), "text", 3000, S},
		{"headerless", kz.Cfg{Transform: "LZ", Entropy: "ANS0", BlockSize: 1024, Jobs: 2, Checksum: 32, Headerless: true}, "text", 5000, S},
		{"headerless-ck0", kz.Cfg{Transform: "NONE", Entropy: "NONE", BlockSize: 1024, Jobs: 1, Headerless: true}, "text", 3000, S},
		{"hint-exact", kz.Cfg{Transform: "LZ", Entropy: "NONE", BlockSize: 1024, Jobs: 2, Hint: -1}, "text", 4500, S},
		{"incompressible", cfg("LZX", "ANS1", 1024, 2, 0), "random", 4000, S},
	}
	large := []recipe{
		{"large-bwt", cfg("BWT", "ANS0", 65536, 4, 32), "text", 600000, S},
		{"large-lz", cfg("LZX", "HUFFMAN", 16384, 3, 0), "html", 300000, S},
		{"large-none", cfg("NONE", "NONE", 4096, 8, 64), "wav", 200000, S},
	}
	if run.Thorough() {
		for i, t := range kz.Transforms {
			small = append(small, recipe{"thorough-" + t, cfg(t, kz.Entropies[i%9], 1024, uint(1+i%3), []uint{0, 32, 64}[i%3]), []string{"text", "dna", "runs", "elfx86", "cyrillic"}[i%5], 5000, S + int64(i)})
		}
	}
	var cases []*cutCase
	for i := range small {
		_, stream, err := small[i].build()
		if err != nil {
			run.Count("recipe_build_failed", 1)
			continue
		}
		for cut := 0; cut < len(stream); cut++ {
			for _, j := range []uint{1, 3} {
				cases = append(cases, &cutCase{small[i], cut, j, 0, 0})
			}
		}
		run.Seen("recipes_cut_exhaustively", fmt.Sprintf("%s(%dB)", small[i].Name, len(stream)))
		// the same cuts with a block range given to the Reader: the cut may fall inside a block that is only skipped
		B := int(small[i].Cfg.BlockSize)
		nb := (small[i].Size + B - 1) / B
		if nb >= 3 && !small[i].Cfg.Headerless {
			for vi, v := range [][2]int{{2, 0}, {0, 2}, {2, 3}, {nb, 0}, {0, nb + 1}, {nb + 1, nb + 3}} {
				if !run.Thorough() && (vi+i)%2 == 1 {
					continue
				}
				for cut := 0; cut < len(stream); cut++ {
					cases = append(cases, &cutCase{small[i], cut, []uint{1, 3, 2}[(cut+vi)%3], v[0], v[1]})
				}
			}
		}
	}
	for i := range large {
		_, stream, err := large[i].build()
		if err != nil {
			run.Count("recipe_build_failed", 1)
			continue
		}
		ps, perr := container.Parse(stream)
		cuts := map[int]bool{}
		if perr == nil {
			for _, b := range ps.Blocks {
				for _, bit := range []int{b.PrefixOff, b.PayloadOff, b.DataOff, b.PayloadOff + b.PayloadLen} {
					for d := -2; d <= 2; d++ {
						cuts[bit/8+d] = true
					}
				}
			}
			for d := 0; d < 8; d++ {
				cuts[ps.EndOff/8-d] = true
				cuts[len(stream)-1-d] = true
			}
		}
		r := core.Derive(S, "c09", i)
		for k := 0; k < run.Pick(300, 3000); k++ {
			cuts[r.Intn(len(stream))] = true
		}
		for cut := range cuts {
			if cut >= 0 && cut < len(stream) {
				cases = append(cases, &cutCase{large[i], cut, uint(1 + cut%4), 0, 0})
			}
		}
	}
	// many small blocks: the position of a block header inside the 64-bit words of the input bitstream takes every value
	// (a cut a few bytes after a header that ends exactly on a word boundary leaves a partial word to the next refill)
	align := map[int]bool{}
	for i, cf := range []kz.Cfg{cfg("NONE", "HUFFMAN", 1024, 1, 0), cfg("LZ", "ANS0", 1024, 2, 32), cfg("NONE", "NONE", 1024, 1, 64), cfg("RLT", "HUFFMAN", 1024, 3, 0), cfg("NONE", "RANGE", 1040, 1, 0), cfg("TEXT", "HUFFMAN", 2048, 2, 32)} {
		if !run.Thorough() && i >= 4 {
			break
		}
		rc := recipe{fmt.Sprintf("many-blocks-%d", i), cf, []string{"text", "html", "skewed", "runs", "dna", "text"}[i], int(cf.BlockSize)*[]int{260, 200, 130, 220, 180, 150}[i] - 333, S + int64(i)}
		_, stream, err := rc.build()
		if err != nil {
			run.Count("recipe_build_failed", 1)
			continue
		}
		ps, perr := container.Parse(stream)
		if perr != nil {
			continue
		}
		cuts := map[int]bool{}
		for _, b := range ps.Blocks {
			align[b.PrefixOff%64] = true
			for d := -1; d <= 9; d++ {
				cuts[b.PrefixOff/8+d] = true
			}
		}
		for cut := range cuts {
			if cut >= 0 && cut < len(stream) {
				cases = append(cases, &cutCase{rc, cut, uint(1 + cut%3), 0, 0})
			}
		}
	}
	run.Count("distinct_block_header_alignments_mod_64", len(align))
	core.ParallelDo(len(cases), 0, func(i int) {
		c := cases[i]
		if core.Hangs() >= 3 {
			return
		}
		g, returned := guarded(func() kd { k, d, ok := runCutCase(c); return kd{k, d, ok} })
		if !returned {
			run.Eval(1)
			run.Violate("C09 hang recipe="+c.R.Name, fmt.Sprintf("decoding the %d-byte prefix never returned (60 s, then 180 s)", c.Cut), c)
			return
		}
		k, d, ok := g.k, g.d, g.ok
		if !ok {
			return
		}
		run.Eval(1)
		if c.Cut >= 22 || c.R.Cfg.Headerless {
			run.Nontrivial(fmt.Sprintf("%s|%d|%d|%d-%d", c.R.Name, c.Cut, c.Jobs, c.From, c.To))
			if c.From > 0 || c.To > 0 {
				run.Count("cuts_with_block_range", 1)
			}
		}
		if k != "" {
			run.Violate(fmt.Sprintf("C09 %s recipe=%s", k, c.R.Name), d, c)
		}
	})
	run.SetExhaustive(false)
	run.SetExtra("small_streams_exhaustive_over_cuts", true)
	for i := 0; i < 5; i++ {
		run.Sample(cases[(i*7919+1)%len(cases)])
	}
}

func init() { register("C09", "exploration", c09) }
