package checks

import (
	"bytes"
	"fmt"
	"io"
	"os"
	"os/exec"
	"path/filepath"
	"time"

	"verifharness/core"
	"verifharness/gen"
)

// C06, tool level: the same compressed bytes are decoded by the built command-line tool from a file, from a pipe that delivers
// them in small pieces, to a file and to a pipe; every way must restore the original (the tool's own read loop sits on top of
// Reader.Read, so its result must not depend on how Read happens to slice the data either).

type toolIoCase struct {
	BlockSize string `json:"block_size"`
	Jobs      int    `json:"jobs"`
	DJobs     int    `json:"dec_jobs"`
	Level     string `json:"level"`
	Shape     string `json:"shape"`
	Size      int    `json:"size"`
	Seed      int64  `json:"seed"`
	Dribble   int    `json:"pipe_piece"` // bytes per write into the tool's stdin
}

// runToolPiped runs the tool with stdin fed in pieces of `piece` bytes (0 = no stdin) and returns exit code, stdout, stderr
func runToolPiped(dir string, stdin []byte, piece int, args ...string) (int, []byte, string) {
	bin, _ := buildCLI()
	cmd := exec.Command(bin, args...)
	cmd.Dir = dir
	var so, se bytes.Buffer
	cmd.Stdout, cmd.Stderr = &so, &se
	var wpipe io.WriteCloser
	if stdin != nil {
		wpipe, _ = cmd.StdinPipe()
	}
	if err := cmd.Start(); err != nil {
		return -1, nil, err.Error()
	}
	if wpipe != nil {
		go func() {
			defer wpipe.Close()
			for off := 0; off < len(stdin); off += piece {
				if _, err := wpipe.Write(stdin[off:min(off+piece, len(stdin))]); err != nil {
					return
				}
			}
		}()
	}
	done := make(chan error, 1)
	go func() { done <- cmd.Wait() }()
	code := 0
	select {
	case err := <-done:
		if ee, ok := err.(*exec.ExitError); ok {
			code = ee.ExitCode()
		} else if err != nil {
			code = -1
		}
	case <-time.After(10 * time.Minute):
		cmd.Process.Kill()
		<-done
		code = -9
	}
	return code, so.Bytes(), core.Trunc(se.String(), 400)
}

func runToolIoCase(c *toolIoCase) (kind, detail string) {
	if _, err := buildCLI(); err != nil {
		return "harness-build", err.Error()
	}
	work, err := os.MkdirTemp(cliTmpRoot, "c06-")
	if err != nil {
		return "harness", err.Error()
	}
	defer os.RemoveAll(work)
	data := gen.Make(c.Shape, c.Size, c.Seed)
	os.WriteFile(filepath.Join(work, "in.dat"), data, 0o644)
	copts := []string{"-c", "-v", "0", "-l", c.Level, "-b", c.BlockSize, "-j", fmt.Sprint(c.Jobs)}
	dopts := []string{"-d", "-v", "0", "-j", fmt.Sprint(c.DJobs)}
	// two archives of the same data: file -> file (original size recorded in the header) and pipe -> pipe (size unknown)
	if code, _, e := runToolPiped(work, nil, 0, append(copts, "-i", "in.dat", "-o", "a.knz")...); code != 0 {
		return "compress-exit", fmt.Sprintf("file->file compress exits %d: %s", code, e)
	}
	code, piped, e := runToolPiped(work, data, c.Dribble*7+1, append(copts, "-i", "stdin", "-o", "stdout")...)
	if code != 0 {
		return "compress-exit", fmt.Sprintf("pipe->pipe compress exits %d: %s", code, e)
	}
	os.WriteFile(filepath.Join(work, "b.knz"), piped, 0o644)
	arch, _ := os.ReadFile(filepath.Join(work, "a.knz"))
	for ai, a := range [][]byte{arch, piped} {
		name := []string{"a.knz", "b.knz"}[ai]
		// file -> file
		out := fmt.Sprintf("out%d.dat", ai)
		if code, _, e := runToolPiped(work, nil, 0, append(dopts, "-i", name, "-o", out)...); code != 0 {
			return "decompress-exit way=file-to-file", fmt.Sprintf("%s (%d bytes): exit %d: %s", name, len(a), code, e)
		}
		if got, _ := os.ReadFile(filepath.Join(work, out)); !bytes.Equal(got, data) {
			return "output-differs way=file-to-file", fmt.Sprintf("%s: %d bytes restored, %d original", name, len(got), len(data))
		}
		// file -> pipe
		code, got, e := runToolPiped(work, nil, 0, append(dopts, "-i", name, "-o", "stdout")...)
		if code != 0 {
			return "decompress-exit way=file-to-pipe", fmt.Sprintf("%s: exit %d: %s", name, code, e)
		}
		if !bytes.Equal(got, data) {
			return "output-differs way=file-to-pipe", fmt.Sprintf("%s: %d bytes restored, %d original, exit 0", name, len(got), len(data))
		}
		// dribbling pipe -> pipe
		code, got, e = runToolPiped(work, a, c.Dribble, append(dopts, "-i", "stdin", "-o", "stdout")...)
		if code != 0 {
			return "decompress-exit way=pipe-to-pipe", fmt.Sprintf("%s fed in pieces of %d: exit %d: %s", name, c.Dribble, code, e)
		}
		if !bytes.Equal(got, data) {
			return "output-differs way=pipe-to-pipe", fmt.Sprintf("%s fed in pieces of %d: %d bytes restored, %d original, exit 0", name, c.Dribble, len(got), len(data))
		}
	}
	return "", ""
}

func c06Tool(run *core.Run) {
	S := run.Seed
	var cases []*toolIoCase
	// block size x jobs: batches (jobs x block size) that do and do not end on the tool's 32 KiB read size, single and several batches
	bss := []string{"1024", "16k", "40000", "48k", "64k", "100000", "1m"}
	for bi, bs := range bss {
		for ji, j := range []int{1, 2, 3, 5} {
			if !run.Thorough() && (bi+ji)%2 == 1 && bs != "16k" && bs != "40000" {
				continue
			}
			size := []int{100000, 300000, 500000, 70001}[(bi+ji)%4]
			if bs == "1m" {
				size = 2500000
			}
			if bs == "1024" {
				size = 50000
			}
			cases = append(cases, &toolIoCase{BlockSize: bs, Jobs: j, DJobs: []int{1, 2, 4, 3}[(bi+ji)%4], Level: []string{"0", "1", "2", "3"}[(bi*3+ji)%4], Shape: []string{"text", "random", "html", "wav"}[(bi+ji*2)%4],
				Size: size, Seed: S + int64(bi*10+ji), Dribble: []int{1000, 4096, 333, 65536}[(bi+ji)%4]})
		}
	}
	core.ParallelDo(len(cases), 8, func(i int) {
		c := cases[i]
		k, d := runToolIoCase(c)
		run.Eval(1)
		run.Count("cases_tool", 1)
		run.Nontrivial(fmt.Sprintf("tool|%s|%d|%d|%s|%d", c.BlockSize, c.Jobs, c.DJobs, c.Shape, c.Dribble))
		if k != "" && k != "harness" {
			run.Violate("C06 tool "+k, fmt.Sprintf("[-b %s -j %d, decoder -j %d, level %s, %s %d bytes] %s", c.BlockSize, c.Jobs, c.DJobs, c.Level, c.Shape, c.Size, d), c)
		}
	})
	if cliTmpRoot != "" {
		os.RemoveAll(cliTmpRoot)
	}
}
