package checks

import (
	"bytes"
	"encoding/binary"
	"encoding/json"
	"fmt"
	"reflect"
	"sync"
	"time"

	"github.com/flanglet/kanzi-go/v2/transform"

	"verifharness/core"
	"verifharness/gen"
	"verifharness/kz"
)

// C13: each transform is an exact inverse pair, in bounds, and declines cleanly,
// on blocks handed over exactly as the compression pipeline does.

type trCase struct {
	T       string `json:"t"`       // transform under test
	Pre     string `json:"pre"`     // "" | "magic" | name of an earlier stage run first on the same context
	Entropy string `json:"entropy"` // entropy codec name in the context (selects TEXT/RLT variants)
	Shape   string `json:"shape"`
	Size    int    `json:"size"`
	Seed    int64  `json:"seed"`
	Slack   int    `json:"slack"` // extra bytes in the destination beyond MaxEncodedLen (0 = exactly as first allocated by the pipeline)
	Jobs    uint   `json:"jobs"`
	BMul    int    `json:"bmul,omitempty"` // > 1: the stream's block size is this many times the tightest legal one (a short last block: the inverse gets a much larger buffer than the block)
}

type trResult struct {
	Kind       string `json:"kind"` // "" = ok
	Detail     string `json:"detail"`
	Dir        string `json:"dir"`
	Site       string `json:"site"`
	Applied    bool   `json:"applied"`
	PreApplied bool   `json:"pre_applied"`
	Hint       string `json:"hint"`
	InLen      int    `json:"in_len"`
	OutLen     int    `json:"out_len"`
	SkippedInv string `json:"skipped_inv,omitempty"`
	SrcKept    bool   `json:"src_kept"`
}

var dtOnce sync.Once
var dtType reflect.Type

// dataTypeValue builds a value of the module-internal type internal.DataType by reflection on a
// value leaked into a context by a real transform stage (the harness cannot import `internal`).
func dataTypeValue(n int) any {
	dtOnce.Do(func() {
		for _, try := range [][2]string{{"TEXT", "text"}, {"UTF", "cyrillic"}, {"RLT", "dna"}, {"PACK", "dna"}} {
			ctx := writerCtx(try[0], "NONE", 65536, 20000, 1)
			tt, _ := transform.GetType(try[0])
			seq, err := transform.New(&ctx, tt)
			if err != nil {
				continue
			}
			src := gen.Make(try[1], 20000, 1)
			dst := make([]byte, seq.MaxEncodedLen(len(src)))
			catch(func() { seq.Forward(src, dst) })
			if v, ok := ctx["dataType"]; ok && v != nil {
				dtType = reflect.TypeOf(v)
				return
			}
		}
	})
	if dtType == nil {
		return nil
	}
	v := reflect.New(dtType).Elem()
	v.SetInt(int64(n))
	return v.Interface()
}

func dataTypeName(v any) string {
	if v == nil {
		return "none"
	}
	names := []string{"UNDEFINED", "TEXT", "MULTIMEDIA", "EXE", "NUMERIC", "BASE64", "DNA", "BIN", "UTF8", "SMALL_ALPHABET"}
	n := int(reflect.ValueOf(v).Int())
	if n >= 0 && n < len(names) {
		return names[n]
	}
	return fmt.Sprint(n)
}

// writerCtx mirrors the parameter map io.Writer hands to a block task
func writerCtx(tr, ent string, blockSize uint, size int, jobs uint) map[string]any {
	if jobs == 0 {
		jobs = 1
	}
	return map[string]any{"entropy": ent, "transform": tr, "blockSize": blockSize, "jobs": jobs, "checksum": uint(0),
		"fileSize": int64(0), "headerless": false, "bsVersion": uint(6), "size": uint(size)}
}

// readerCtx mirrors the parameter map io.Reader hands to a block task
func readerCtx(tr, ent string, blockSize uint, size int, jobs uint) map[string]any {
	if jobs == 0 {
		jobs = 1
	}
	return map[string]any{"entropy": ent, "transform": tr, "blockSize": blockSize, "jobs": jobs, "bsVersion": uint(6), "size": uint(size)}
}

// magicHint replicates, from the format documentation of internal/Magic.go, the classification
// encodingTask.encode applies to the first bytes of a block: 7 = BIN, 2 = MULTIMEDIA, 3 = EXE, 0 = none
func magicHint(b []byte) int {
	if len(b) < 4 {
		return 0
	}
	k := binary.BigEndian.Uint32(b)
	k16 := k >> 16
	compressed := func() bool {
		if k&^0x0F == 0xFFD8FFE0 && k == 0xFFD8FFE0 {
			return true
		}
		switch k {
		case 0x47494638, 0x89504E47, 0x377ABCAF, 0x28B52FFD, 0x81CFB2CE, 0x4D534346, 0x504B0304, 0x664C6143, 0xFD377A58, 0x4B414E5A, 0x52617221:
			return true
		}
		if k>>8 == 0x425A68 || k>>8 == 0x494433 {
			return true
		}
		return k16 == 0x1F8B
	}
	// note: a JPG key other than exactly FFD8FFE0 is returned as-is by GetMagicType and matches no case
	if compressed() {
		return 7
	}
	switch k {
	case 0x52494646:
		return 2
	case 0x7F454C46, 0xFEEDFACE, 0xCEFAEDFE, 0xFEEDFACF, 0xCFFAEDFE:
		return 3
	}
	if k16 == 0x424D {
		return 2
	}
	if k16 == 0x4D5A {
		return 3
	}
	if k16 == 0x5034 || k16 == 0x5035 || k16 == 0x5036 {
		sub := (k >> 8) & 0xFF
		if sub == 0x07 || sub == 0x0A || sub == 0x0D || sub == 0x20 {
			return 2
		}
	}
	return 0
}

func runTrCase(c *trCase) (res trResult) {
	x := gen.Make(c.Shape, c.Size, c.Seed)
	res.InLen = len(x)
	B := legalBlockSize(len(x))
	if c.BMul > 1 {
		B = min(B*uint(c.BMul), 64<<20)
	}
	chain := c.T
	if c.Pre != "" && c.Pre != "magic" {
		chain = c.Pre + "+" + c.T
	}
	ctx := writerCtx(chain, c.Entropy, B, len(x), c.Jobs)
	if c.Pre == "magic" {
		if h := magicHint(x); h != 0 {
			v := dataTypeValue(h)
			if v == nil {
				return trResult{Kind: "harness", Detail: "cannot build an internal.DataType value"}
			}
			ctx["dataType"] = v
		}
	}
	tT, err := transform.GetType(c.T)
	if err != nil {
		return trResult{Kind: "harness", Detail: err.Error()}
	}
	var seqA *transform.ByteTransformSequence
	if c.Pre != "" && c.Pre != "magic" {
		tA, _ := transform.GetType(c.Pre)
		if seqA, err = transform.New(&ctx, tA); err != nil {
			return trResult{Kind: "constructor", Detail: err.Error(), Dir: "forward"}
		}
	}
	seqB, err := transform.New(&ctx, tT)
	if err != nil {
		return trResult{Kind: "constructor", Detail: err.Error(), Dir: "forward"}
	}
	y := x
	if seqA != nil {
		reqA := seqA.MaxEncodedLen(len(x))
		dstA := make([]byte, reqA)
		srcA := append(make([]byte, 0, max(len(x)+len(x)>>3, reqA)), x...)
		var n uint
		if p := catchStack(func() { _, n, _ = seqA.Forward(srcA, dstA) }); p != nil {
			// a fault of the earlier stage is reported by the case where that stage is the one under test
			return trResult{Kind: "", SkippedInv: "earlier stage faulted"}
		}
		if seqA.SkipFlags() != 0xFF {
			y = append([]byte(nil), dstA[:n]...)
			res.PreApplied = true
		}
	}
	res.Hint = dataTypeName(ctx["dataType"])
	// --- forward
	req := seqB.MaxEncodedLen(len(y))
	srcBuf := make([]byte, max(len(y)+len(y)>>3, req, 1))
	copy(srcBuf, y)
	src := srcBuf[:len(y)]
	dst := make([]byte, req+c.Slack)
	for i := range dst {
		dst[i] = 0xA5
	}
	var outLen uint
	var ferr error
	if p := catchStack(func() { _, outLen, ferr = seqB.Forward(src, dst) }); p != nil {
		return trResult{Kind: "panic", Dir: "forward", Site: p.site, Detail: fmt.Sprintf("Forward on %d bytes (dst %d): %v", len(y), len(dst), p.val), Hint: res.Hint, PreApplied: res.PreApplied, InLen: len(y)}
	}
	if len(y) == 0 {
		return res
	}
	if ferr != nil {
		res.Kind, res.Dir, res.Detail = "forward-error", "forward", ferr.Error()
		return
	}
	res.Hint = dataTypeName(ctx["dataType"])
	applied := seqB.SkipFlags() != 0xFF
	res.Applied = applied
	if !applied {
		if !bytes.Equal(src, y) {
			k := 0
			for k < len(y) && src[k] == y[k] {
				k++
			}
			res.Kind, res.Dir, res.Detail = "modified-on-decline", "forward", fmt.Sprintf("stage declined but changed its input at offset %d of %d", k, len(y))
		}
		return
	}
	res.OutLen = int(outLen)
	res.SrcKept = bytes.Equal(src, y) // not required by the property on success; reported as an observation
	if int(outLen) > req {
		res.Kind, res.Dir, res.Detail = "exceeds-maxencodedlen", "forward", fmt.Sprintf("output %d bytes > MaxEncodedLen(%d) = %d", outLen, len(y), req)
		return
	}
	// --- inverse, into the buffer sizes the decompressor provides for the original block
	pad := max(512, int(B)>>4)
	dstLen := int(B) + pad
	if len(y) > dstLen {
		res.SkippedInv = fmt.Sprintf("stage input %d exceeds decompressor buffer %d (earlier stage expanded)", len(y), dstLen)
		return
	}
	dctx := readerCtx(chain, c.Entropy, B, int(outLen), c.Jobs)
	if seqA != nil {
		tA, _ := transform.GetType(c.Pre)
		if _, err := transform.New(&dctx, tA); err != nil {
			return trResult{Kind: "constructor", Detail: err.Error(), Dir: "inverse"}
		}
	}
	inv, err := transform.New(&dctx, tT)
	if err != nil {
		return trResult{Kind: "constructor", Detail: err.Error(), Dir: "inverse"}
	}
	inv.SetSkipFlags(0x7F)
	encBuf := make([]byte, max(dstLen, int(outLen)+512))
	copy(encBuf, dst[:outLen])
	back := make([]byte, dstLen)
	var n uint
	var ierr error
	if p := catchStack(func() { _, n, ierr = inv.Inverse(encBuf[:outLen], back) }); p != nil {
		res.Kind, res.Dir, res.Site, res.Detail = "panic", "inverse", p.site, fmt.Sprintf("Inverse of %d bytes into %d: %v", outLen, dstLen, p.val)
		return
	}
	if ierr != nil {
		res.Kind, res.Dir, res.Detail = "inverse-error", "inverse", fmt.Sprintf("Inverse of the %d bytes Forward produced from %d failed: %v", outLen, len(y), ierr)
		return
	}
	if int(n) != len(y) || !bytes.Equal(back[:n], y) {
		k := 0
		for k < len(y) && k < int(n) && back[k] == y[k] {
			k++
		}
		res.Kind, res.Dir, res.Detail = "roundtrip-mismatch", "inverse", fmt.Sprintf("Inverse returned %d bytes (want %d), first difference at %d", n, len(y), k)
	}
	return
}

type caught struct {
	val  any
	site string
}

// catchStack runs f and, if it panics, returns the value and the faulting kanzi-go function
func catchStack(f func()) (c *caught) {
	defer func() {
		if r := recover(); r != nil {
			c = &caught{val: r, site: core.PanicSite(stackNow())}
		}
	}()
	f()
	return nil
}

func init() {
	core.RegisterChild("c13", func(raw json.RawMessage) any {
		var c trCase
		if err := json.Unmarshal(raw, &c); err != nil {
			return trResult{Kind: "harness", Detail: err.Error()}
		}
		return runTrCase(&c)
	})
	register("C13", "exploration", c13)
}

func c13(run *core.Run, replay string) {
	run.SetRule("each transform is built with the parameter map the stream layer builds, optionally after the block-magic hint or after a real earlier stage ran on the same map (hints are never fabricated), " +
		"Forward into a destination of exactly MaxEncodedLen (or with slack), then Inverse into the buffer size the decompressor provides for the tightest legal block size - and, for short-last-block cases, for block sizes 2..200 times larger; " +
		"non-trivial = the stage actually applied (skip flag clear) on >= 16 bytes and the inverse was checked; distinct = (transform, pre-stage, entropy variant, shape, size, slack)")
	run.Assume("magic-number classification of encodingTask.encode re-implemented from internal/Magic.go (only selects which hints are tried)")
	if replay != "" {
		var c trCase
		if err := core.LoadReplay(replay, &c); err != nil {
			run.Violate("C13 replay-unreadable", err.Error(), nil)
			return
		}
		r := runTrCase(&c)
		run.Eval(1)
		if r.Kind != "" {
			run.Violate(trSig(&c, &r), r.Detail, c)
		}
		fmt.Printf("replay result: %+v\n", r)
		return
	}
	var cases []any
	var tcs []*trCase
	add := func(c trCase) { cc := c; tcs = append(tcs, &cc); cases = append(cases, &cc) }
	sizes := []int{1, 2, 15, 16, 17, 63, 64, 65, 255, 256, 257, 512, 1023, 1024, 1025, 4096, 16383, 16384, 16385, 20000, 32768, 65535, 65536, 65537, 70000, 131071, 131072, 131073, 262144}
	if run.Thorough() {
		sizes = append(sizes, 100000, 300000, 1<<20, 1<<20+1, 3000000)
	}
	shapes := gen.Shapes
	entVariants := func(t string) []string {
		switch t {
		case "TEXT", "RLT":
			return []string{"NONE", "TPAQ"}
		}
		return []string{"ANS0"}
	}
	pres := []string{"", "magic", "TEXT", "RLT", "UTF", "EXE", "MM", "PACK", "LZP", "ROLZ", "BWT", "NONE"}
	for ti, t := range kz.Transforms {
		for si, sz := range sizes {
			for hi, sh := range shapes {
				for ei, ent := range entVariants(t) {
					if !run.Thorough() && (si+hi+ti)%3 != 0 {
						continue
					}
					if (t == "BWT" || t == "BWTS") && sz > 300000 && hi%6 != 0 {
						continue
					}
					slack := 0
					if (si+hi+ei)%5 == 0 {
						slack = 4096
					}
					add(trCase{T: t, Entropy: ent, Shape: sh, Size: sz, Seed: run.Seed*7 + int64(si*31+hi), Slack: slack})
				}
			}
		}
		// hints: magic and earlier stages
		for pi, pre := range pres[1:] {
			for hi, sh := range shapes {
				for si, sz := range []int{64, 700, 4096, 20000, 70000, 150000} {
					if !run.Thorough() && (pi+hi+si+ti)%4 != 0 {
						continue
					}
					if pre == "magic" && !(sh == "magicmix" || sh == "wav" || sh == "bmp" || sh == "ppm" || sh[:2] == "el" || sh[:2] == "pe" || sh == "machobogus") {
						continue
					}
					add(trCase{T: t, Pre: pre, Entropy: entVariants(t)[0], Shape: sh, Size: sz, Seed: run.Seed*11 + int64(pi*101+hi*7+si)})
				}
			}
		}
	}
	// every block length 1..320 and a window around 1 KiB for every transform (thresholds such as 16, 64, 256, 1024 bytes, header sizes)
	for ti, t := range kz.Transforms {
		for n := 1; n <= 320; n++ {
			add(trCase{T: t, Entropy: entVariants(t)[n%len(entVariants(t))], Shape: []string{"text", "runs", "dna", "skewed", "ffmix", "random"}[(n+ti)%6], Size: n, Seed: run.Seed + int64(n)})
			if t == "ZRLT" || t == "RLT" || t == "MTFT" || t == "RANK" || t == "SRT" {
				add(trCase{T: t, Entropy: "ANS0", Shape: "ffmix", Size: n, Seed: run.Seed*3 + int64(n), Slack: 8 * (n % 2)})
			}
		}
		for n := 1000; n <= 1050; n++ {
			add(trCase{T: t, Entropy: entVariants(t)[0], Shape: []string{"text", "cyrillic", "dna", "wav", "elfx86"}[(n+ti)%5], Size: n, Seed: run.Seed + int64(n)})
		}
	}
	// shapes that stress table limits: long literal runs, huge vocabularies, escape-dense multimedia, uniform small alphabets
	for _, tc := range [][2]string{{"LZ", "randtext"}, {"LZX", "randtext"}, {"LZP", "randtext"}, {"ROLZ", "randtext"}, {"ROLZX", "randtext"}, {"TEXT", "bigvocab"}, {"MM", "fsdstress"},
		{"PACK", "alphau:16"}, {"PACK", "alphau:15"}, {"PACK", "alphau:17"}, {"PACK", "alphau:4"}, {"PACK", "alphau:3"}, {"PACK", "alphau:5"}, {"DNA", "alphau:4"}, {"RLT", "alphau:2"}, {"SRT", "alphau:256"}} {
		for si, sz := range []int{1024, 4096, 65536, 100000, 280000, 1000003, 4096000} {
			if sz > 1000003 && !(tc[1] == "randtext") {
				continue
			}
			for _, ent := range entVariants(tc[0]) {
				for _, slack := range []int{0, 16} {
					add(trCase{T: tc[0], Entropy: ent, Shape: tc[1], Size: sz + si, Seed: run.Seed + int64(si), Slack: slack})
				}
			}
		}
	}
	// content-specific transforms on the content they are made for: more sizes and instances (they decline on most other shapes)
	affinity := map[string][]string{
		"DNA":  {"dna"},
		"PACK": {"smallalpha", "dna", "numeric", "base64", "alpha:7", "alpha:16", "alpha:3"},
		"UTF":  {"cyrillic", "cjk", "utf8big", "utf8dirty", "utfcont"},
		"TEXT": {"text", "textcrlf", "html", "crlfcut", "cyrillic"},
		"EXE":  {"elfx86", "elfarm64", "pe"},
		"MM":   {"wav", "bmp", "ppm"},
		"RLT":  {"runs", "longruns", "zeros", "constchunks"},
		"ZRLT": {"zeros", "longruns", "runs"},
		"BWT":  {"fibword", "thuemorse", "bigperiod", "periodic", "repeatblocks"},
		"BWTS": {"fibword", "thuemorse", "bigperiod"},
	}
	for t, shs := range affinity {
		for hi, sh := range shs {
			for si, sz := range []int{64, 300, 1024, 1500, 4096, 5000, 16384, 33000, 65536, 100000, 200000, 262144, 300000} {
				for q := 0; q < run.Pick(4, 12); q++ {
					for ei, ent := range entVariants(t) {
						if !run.Thorough() && (si+hi+q+ei)%2 == 1 {
							continue
						}
						add(trCase{T: t, Entropy: ent, Shape: sh, Size: sz + q*7, Seed: run.Seed*131 + int64(q*1000+si), Pre: []string{"", "TEXT", "", "RLT"}[(q+si)%4]})
					}
				}
			}
		}
	}
	// a block much shorter than the stream's block size (the last block of a stream, or a small input under a large -b): the
	// forward side sees the real block length, the inverse side a buffer sized from the block size
	for ti, t := range kz.Transforms {
		shs := affinity[t]
		if len(shs) == 0 {
			shs = []string{"text", "html", "repeatblocks"}
		}
		for hi, sh := range shs {
			if hi >= 3 {
				break
			}
			for si, sz := range []int{5000, 70000, 600000} {
				for mi, mul := range []int{3, 16, 200} {
					if !run.Thorough() && (ti+hi+si+mi)%2 == 1 {
						continue
					}
					if (t == "BWT" || t == "BWTS") && sz > 100000 && mi != 0 {
						continue
					}
					add(trCase{T: t, Entropy: entVariants(t)[(si+mi)%len(entVariants(t))], Shape: sh, Size: sz + 3*mi, Seed: run.Seed*17 + int64(si), BMul: mul})
				}
			}
		}
	}
	// more distinct words than the dictionary / the word-index encoding can hold (block size >= 8 MiB so that the hash map can hold them)
	for _, ent := range entVariants("TEXT") {
		add(trCase{T: "TEXT", Entropy: ent, Shape: "wordlist3", Size: 6200000, Seed: run.Seed, BMul: 2})
		add(trCase{T: "TEXT", Entropy: ent, Shape: "wordlist", Size: 7000000, Seed: run.Seed + 1, BMul: 8})
		add(trCase{T: "TEXT", Entropy: ent, Shape: "vocabrepeat", Size: 8200000, Seed: run.Seed + 2, BMul: 4})
		add(trCase{T: "TEXT", Entropy: ent, Shape: "vocabrepeat", Size: 6000000, Seed: run.Seed + 3, BMul: 2})
	}
	for si, sz := range []int{1 << 20, 1500000, 2500000} {
		for _, ent := range entVariants("TEXT") {
			add(trCase{T: "TEXT", Entropy: ent, Shape: []string{"wordlist", "bigvocab", "wordlist"}[si], Size: sz, Seed: run.Seed + int64(si), BMul: []int{4, 16, 2}[si]})
			add(trCase{T: "TEXT", Entropy: ent, Shape: "wordlist", Size: sz / 2, Seed: run.Seed + int64(si), BMul: 1 + si})
		}
	}
	// literal runs whose length sits on the boundaries of the LZ-family length fields (1 / 3 / 4-byte forms): the run is k random
	// bytes plus the first occurrence of the pattern that follows (about 45 more bytes), so k sweeps a window below the boundary
	for ti, t := range []string{"LZ", "LZX", "LZP", "ROLZ", "ROLZX"} {
		for _, base := range []int{254, 65536 + 254} {
			for k := base - 70; k <= base+40; k++ {
				if !run.Thorough() && base == 254 && (k+ti)%2 != 0 {
					continue
				}
				add(trCase{T: t, Entropy: "ANS0", Shape: fmt.Sprintf("litrun:%d", k), Size: k + 3000 + 7*(k%32), Seed: run.Seed + int64(k%5)})
			}
		}
	}
	// executable-looking blocks with garbage headers: each instance draws different header fields, so many seeds per shape
	nbogus := run.Pick(120, 1500)
	for i := 0; i < nbogus; i++ {
		for _, sh := range []string{"machobogus", "elfbogus", "pebogus", "elfx86", "pe"} {
			for _, tr := range []string{"EXE", "MM"} {
				if tr == "MM" && i%4 != 0 {
					continue
				}
				add(trCase{T: tr, Pre: []string{"", "magic"}[i%2], Entropy: "ANS0", Shape: sh, Size: []int{64, 100, 512, 4096, 20000, 70000}[i%6], Seed: run.Seed*977 + int64(i)})
			}
		}
	}
	// multi-MiB skewed blocks for every transform: symbol frequencies, run lengths and distances above 2^21
	for ti, t := range kz.Transforms {
		for hi, sh := range []string{"zeros", "skewed", "longruns"} {
			if !run.Thorough() && (ti+hi)%3 != 0 && t != "SRT" && t != "RLT" && t != "ZRLT" {
				continue
			}
			add(trCase{T: t, Entropy: entVariants(t)[0], Shape: sh, Size: 4<<20 + 16 - hi*1000, Seed: run.Seed})
		}
	}
	// the 16 MiB chunk size of ROLZ / ROLZX: blocks a few bytes longer than one chunk (a second chunk shorter than its fixed prologue)
	for _, t := range []string{"ROLZ", "ROLZX"} {
		for di, d := range []int{-1, 0, 1, 2, 3, 4, 5, 6, 7, 8, 9, 10, 11, 12, 16, 100} {
			if !run.Thorough() && t == "ROLZ" && di%2 == 1 {
				continue
			}
			add(trCase{T: t, Entropy: "ANS0", Shape: []string{"html", "text", "repeatblocks"}[di%3], Size: 16<<20 + d, Seed: run.Seed + int64(di)})
		}
	}
	// the > 4 MiB regimes of BWT/BWTS (helper goroutines), and multi-MiB LZ/ROLZ
	bigN := 4<<20 + 16
	for _, t := range []string{"BWT", "BWTS", "LZ", "LZX", "ROLZ", "ROLZX", "TEXT", "RLT"} {
		shs := []string{"text"}
		if run.Thorough() {
			shs = []string{"text", "dna", "random", "elfx86", "runs"}
		}
		for _, sh := range shs {
			for _, j := range []uint{1, 3, 4, 5, 6, 7} {
				if j != 1 && (t != "BWT" || sh != "text") {
					continue
				}
				add(trCase{T: t, Entropy: "ANS0", Shape: sh, Size: bigN, Seed: run.Seed, Jobs: j})
				if t == "BWT" && (j == 3 || j == 7 || j == 1) {
					// an eighth of the block is an odd number of bytes: the chunks of the parallel inverse end on odd positions
					add(trCase{T: t, Entropy: "ANS0", Shape: sh, Size: 4394312 + 8*int(j), Seed: run.Seed, Jobs: j + 1})
				}
			}
		}
	}
	results := core.RunIsolated("c13", cases, core.IsoOpts{Workers: 16, CPUBudget: 10 * time.Minute})
	for i, r := range results {
		c := tcs[i]
		run.Eval(1)
		switch r.Status {
		case "crash":
			run.Violate(fmt.Sprintf("C13 fault=process-death transform=%s pre=%s", c.T, c.Pre), "child process died: "+core.Trunc(r.Detail, 1500), c)
			continue
		case "cpu", "timeout":
			run.Inconclusive(fmt.Sprintf("%s on %+v", r.Status, *c))
			continue
		}
		var tr trResult
		json.Unmarshal(r.Out, &tr)
		if tr.Applied && tr.Kind == "" && !tr.SrcKept {
			run.Seen("forward_modified_its_input_on_success", c.T)
		}
		if tr.Applied {
			run.Count("applied_"+c.T, 1)
			if tr.InLen >= 16 && tr.SkippedInv == "" {
				run.Nontrivial(fmt.Sprintf("%s|%s|%s|%s|%d|%d|%d", c.T, c.Pre, c.Entropy, c.Shape, c.Size, c.Slack, c.BMul))
				if c.BMul > 1 {
					run.Count("applied_in_a_block_shorter_than_the_block_size", 1)
				}
			}
			run.Seen("applied_transform_x_shape", c.T+"/"+c.Shape)
		} else {
			run.Count("declined_"+c.T, 1)
		}
		if tr.Hint != "none" && tr.Hint != "" {
			run.Seen("transform_x_hint", c.T+"/"+tr.Hint)
		}
		if tr.SkippedInv != "" {
			run.Count("inverse_not_checked", 1)
		}
		if tr.Kind != "" {
			run.Violate(trSig(c, &tr), fmt.Sprintf("shape=%s size=%d pre=%s hint=%s: %s", c.Shape, c.Size, c.Pre, tr.Hint, tr.Detail), c)
		}
	}
	for i := 0; i < 6; i++ {
		run.Sample(tcs[(i*7919+3)%len(tcs)])
	}
}

func trSig(c *trCase, r *trResult) string {
	s := fmt.Sprintf("C13 fault=%s dir=%s transform=%s", r.Kind, r.Dir, c.T)
	if r.Site != "" {
		s += " site=" + r.Site
	}
	if r.Kind == "panic" && r.Hint != "" && r.Hint != "none" {
		s += " hint=" + r.Hint
	}
	if (c.T == "ROLZ" || c.T == "ROLZX") && c.Size > 16<<20 && c.Size < 16<<20+12 {
		// the input class of a recorded finding: one full 16 MiB chunk followed by 1..11 bytes
		s += " input=one-chunk-plus-1..11-bytes"
	}
	return s
}
