package checks

import (
	"bytes"
	"crypto/sha256"
	"encoding/hex"
	"fmt"
	"io/fs"
	"os"
	"os/exec"
	"path/filepath"
	"regexp"
	"sort"
	"strings"
	"sync"
	"syscall"
	"time"

	"verifharness/container"
	"verifharness/core"
	"verifharness/gen"
	"verifharness/kz"
)

// C19: command-line tool - tree round trip, no overwrite, inputs untouched, kill safety of --rm.

type cliTreeFile struct {
	Rel   string `json:"rel"`
	Shape string `json:"shape"`
	Size  int    `json:"size"`
}

type cliCase struct {
	Kind  string        `json:"kind"` // tree-inplace | tree-outdir | file | stdio | no-overwrite | same-file | kill-entry | kill-exit | order-trace
	Files []cliTreeFile `json:"files"`
	Opts  []string      `json:"opts"`  // compression options
	DOpts []string      `json:"dopts"` // decompression options
	Seed  int64         `json:"seed"`
	Sys   string        `json:"syscall,omitempty"`
	N     int           `json:"n,omitempty"`
	Phase string        `json:"phase,omitempty"` // compress | decompress (which --rm run is killed)
}

type fileState struct {
	Sum   string
	Size  int64
	MTime int64
	Ino   uint64
}

var cliBin string
var cliBinOnce sync.Once
var cliBinErr error
var cliTmpRoot string

func buildCLI() (string, error) {
	cliBinOnce.Do(func() {
		cliTmpRoot, cliBinErr = os.MkdirTemp("", "verif-c19-")
		if cliBinErr != nil {
			return
		}
		gobin := os.Getenv("GO")
		if gobin == "" {
			gobin = "go"
		}
		repo := os.Getenv("REPO_ROOT")
		if repo == "" {
			repo = "/repo"
		}
		cliBin = filepath.Join(cliTmpRoot, "kanzi")
		cmd := exec.Command(gobin, "build", "-tags", "verif", "-o", cliBin, "./app")
		cmd.Dir = filepath.Join(repo, "v2")
		out, err := cmd.CombinedOutput()
		if err != nil {
			cliBinErr = fmt.Errorf("building v2/app: %v\n%s", err, out)
		}
	})
	return cliBin, cliBinErr
}

func snapshot(root string) map[string]fileState {
	m := map[string]fileState{}
	filepath.WalkDir(root, func(p string, d fs.DirEntry, err error) error {
		if err != nil || d.IsDir() {
			return nil
		}
		b, e := os.ReadFile(p)
		if e != nil {
			return nil
		}
		st, _ := os.Stat(p)
		h := sha256.Sum256(b)
		rel, _ := filepath.Rel(root, p)
		fsx := fileState{Sum: hex.EncodeToString(h[:8]), Size: int64(len(b))}
		if st != nil {
			fsx.MTime = st.ModTime().UnixNano()
			if s, ok := st.Sys().(*syscall.Stat_t); ok {
				fsx.Ino = s.Ino
			}
		}
		m[rel] = fsx
		return nil
	})
	return m
}

func makeTree(root string, files []cliTreeFile, seed int64) (map[string][]byte, error) {
	content := map[string][]byte{}
	for i, f := range files {
		p := filepath.Join(root, f.Rel)
		if err := os.MkdirAll(filepath.Dir(p), 0o755); err != nil {
			return nil, err
		}
		data := gen.Make(f.Shape, f.Size, seed+int64(i))
		if err := os.WriteFile(p, data, 0o644); err != nil {
			return nil, err
		}
		// distinct, old mtimes so that a rewrite is visible
		t := time.Unix(1700000000+int64(i)*1000, 0)
		os.Chtimes(p, t, t)
		content[f.Rel] = data
	}
	return content, nil
}

type toolRun struct {
	exit   int
	out    string
	killed bool
}

func runTool(dir string, stdin []byte, wall time.Duration, pre []string, args ...string) (toolRun, []byte) {
	bin, _ := buildCLI()
	var cmd *exec.Cmd
	if len(pre) > 0 {
		cmd = exec.Command(pre[0], append(append(pre[1:], bin), args...)...)
	} else {
		cmd = exec.Command(bin, args...)
	}
	cmd.Dir = dir
	cmd.SysProcAttr = &syscall.SysProcAttr{Setpgid: true}
	var so, se bytes.Buffer
	cmd.Stdout, cmd.Stderr = &so, &se
	if stdin != nil {
		cmd.Stdin = bytes.NewReader(stdin)
	}
	if err := cmd.Start(); err != nil {
		return toolRun{exit: -1, out: err.Error()}, nil
	}
	done := make(chan error, 1)
	go func() { done <- cmd.Wait() }()
	var tr toolRun
	select {
	case err := <-done:
		if ee, ok := err.(*exec.ExitError); ok {
			tr.exit = ee.ExitCode()
		} else if err != nil {
			tr.exit = -1
		}
	case <-time.After(wall):
		syscall.Kill(-cmd.Process.Pid, syscall.SIGKILL)
		<-done
		tr.killed = true
		tr.exit = -9
	}
	tr.out = core.Trunc(se.String()+so.String(), 600)
	return tr, so.Bytes()
}

func randomTree(r *core.Rng, maxFiles int, maxSize int) []cliTreeFile {
	dirs := []string{"", "sub", "sub/deep", "other dir", "sub/deep/er"}
	sizes := []int{0, 1, 17, 100, 5000, 70000, 300000, 1 << 20}
	n := 1 + r.Intn(maxFiles)
	var fs []cliTreeFile
	for i := 0; i < n; i++ {
		sz := sizes[r.Intn(len(sizes))]
		if sz >= 5000 {
			sz += r.Intn(997) // sizes that are not multiples of anything (-b auto derives the block size from them)
		}
		if sz > maxSize {
			sz = maxSize - r.Intn(13)
		}
		name := fmt.Sprintf("f%d.%s", i, []string{"txt", "bin", "dat", "knz.txt", "tar"}[r.Intn(5)])
		fs = append(fs, cliTreeFile{Rel: filepath.Join(dirs[r.Intn(len(dirs))], name), Shape: gen.Shapes[r.Intn(len(gen.Shapes))], Size: sz})
	}
	return fs
}

type cliViolation struct{ kind, detail string }

func compareTree(want map[string][]byte, root string, suffix string) string {
	got := map[string][]byte{}
	filepath.WalkDir(root, func(p string, d fs.DirEntry, err error) error {
		if err == nil && !d.IsDir() {
			b, _ := os.ReadFile(p)
			rel, _ := filepath.Rel(root, p)
			got[rel] = b
		}
		return nil
	})
	var probs []string
	for rel, w := range want {
		g, ok := got[rel+suffix]
		if !ok {
			probs = append(probs, "missing "+rel+suffix)
		} else if !bytes.Equal(g, w) {
			probs = append(probs, fmt.Sprintf("%s differs (%d vs %d bytes)", rel+suffix, len(g), len(w)))
		}
	}
	for rel := range got {
		base := strings.TrimSuffix(rel, suffix)
		if _, ok := want[base]; !ok {
			probs = append(probs, "unexpected file "+rel)
		}
	}
	sort.Strings(probs)
	if len(probs) > 6 {
		probs = probs[:6]
	}
	return strings.Join(probs, "; ")
}

var traceRe = regexp.MustCompile(`^(\d+)\s+(\w+)\((.*)$`)

func runCliCase(c *cliCase) (vs []cliViolation, nontrivial bool) {
	bad := func(k, f string, a ...any) { vs = append(vs, cliViolation{k, fmt.Sprintf(f, a...)}) }
	if _, err := buildCLI(); err != nil {
		bad("harness-build", "%v", err)
		return
	}
	work, err := os.MkdirTemp(cliTmpRoot, "case-")
	if err != nil {
		bad("harness", "%v", err)
		return
	}
	defer os.RemoveAll(work)
	tree := filepath.Join(work, "t")
	content, err := makeTree(tree, c.Files, c.Seed)
	if err != nil {
		bad("harness", "%v", err)
		return
	}
	before := snapshot(tree)
	wall := 10 * time.Minute
	copts := append([]string{"-c", "-v", "0"}, c.Opts...)
	dopts := append([]string{"-d", "-v", "0"}, c.DOpts...)
	checkInputsUntouched := func(when string) {
		after := snapshot(tree)
		for rel, b := range before {
			a, ok := after[rel]
			if !ok {
				bad("input-removed-without-rm", "%s: input %s disappeared", when, rel)
			} else if a.Sum != b.Sum || a.Size != b.Size {
				bad("input-modified", "%s: content of input %s changed", when, rel)
			} else if a.MTime != b.MTime || a.Ino != b.Ino {
				bad("input-rewritten", "%s: input %s was rewritten (mtime/inode changed)", when, rel)
			}
		}
	}
	switch c.Kind {
	case "tree-inplace":
		r1, _ := runTool(work, nil, wall, nil, append(copts, "-i", "t", "--rm")...)
		if r1.exit != 0 {
			bad("compress-exit", "compress --rm in place exits %d: %s", r1.exit, r1.out)
			return
		}
		if p := compareTreeNames(content, tree, ".knz"); p != "" {
			bad("compress-output-set", "after compress --rm: %s", p)
		}
		r2, _ := runTool(work, nil, wall, nil, append(dopts, "-i", "t", "--rm")...)
		if r2.exit != 0 {
			bad("decompress-exit", "decompress --rm in place exits %d: %s", r2.exit, r2.out)
			return
		}
		if p := compareTree(content, tree, ""); p != "" {
			bad("roundtrip-tree-differs", "%s", p)
		}
		nontrivial = len(c.Files) > 0
	case "tree-outdir", "tree-outdir-noforce", "tree-outdir-dotslash", "tree-outdir-slash":
		os.MkdirAll(filepath.Join(work, "out"), 0o755)
		os.MkdirAll(filepath.Join(work, "back"), 0o755)
		// fresh, empty output directories: nothing can be overwritten, so the force option must not be needed; the input
		// directory may be spelled ./t or t/ (what shell completion produces)
		inName, force := "t", []string{"-f"}
		switch c.Kind {
		case "tree-outdir-noforce":
			force = nil
		case "tree-outdir-dotslash":
			inName = "./t"
		case "tree-outdir-slash":
			inName = "t/"
		}
		r1, _ := runTool(work, nil, wall, nil, append(append(copts, "-i", inName, "-o", "out"), force...)...)
		if r1.exit != 0 {
			bad("compress-exit", "compress dir->dir exits %d: %s", r1.exit, r1.out)
			return
		}
		checkInputsUntouched("compress dir->dir")
		outName := "out"
		if c.Kind == "tree-outdir-dotslash" {
			outName = "./out"
		}
		r2, _ := runTool(work, nil, wall, nil, append(append(dopts, "-i", outName, "-o", "back"), force...)...)
		if r2.exit != 0 {
			bad("decompress-exit", "decompress dir->dir exits %d: %s", r2.exit, r2.out)
			return
		}
		if p := compareTree(content, filepath.Join(work, "back"), ""); p != "" {
			// the tool may name restored files <name> or <name>.bak depending on the input suffix: accept the documented mapping only
			bad("roundtrip-tree-differs", "%s", p)
		}
		nontrivial = true
	case "rm-none":
		// --rm together with -o none (no output is produced at all): the source must survive
		f := c.Files[0]
		r1, _ := runTool(work, nil, wall, nil, append(copts, "-i", filepath.Join("t", f.Rel), "-o", "none", "--rm")...)
		if _, err := os.Stat(filepath.Join(tree, f.Rel)); err != nil {
			bad("source-removed-without-output", "compress -o none --rm (exit %d) removed %s although no output exists", r1.exit, f.Rel)
		}
		r0, _ := runTool(work, nil, wall, nil, append(copts, "-i", filepath.Join("t", f.Rel), "-o", "keep.knz")...)
		if r0.exit == 0 {
			r2, _ := runTool(work, nil, wall, nil, append(dopts, "-i", "keep.knz", "-o", "none", "--rm")...)
			if _, err := os.Stat(filepath.Join(work, "keep.knz")); err != nil {
				bad("source-removed-without-output", "decompress -o none --rm (exit %d) removed the archive although no output exists", r2.exit)
			}
		}
		nontrivial = true
	case "file":
		f := c.Files[0]
		r1, _ := runTool(work, nil, wall, nil, append(copts, "-i", filepath.Join("t", f.Rel), "-o", "x.knz")...)
		if r1.exit != 0 {
			bad("compress-exit", "file compress exits %d: %s", r1.exit, r1.out)
			return
		}
		checkInputsUntouched("file compress")
		r2, _ := runTool(work, nil, wall, nil, append(dopts, "-i", "x.knz", "-o", "y.out")...)
		if r2.exit != 0 {
			bad("decompress-exit", "file decompress exits %d: %s", r2.exit, r2.out)
			return
		}
		got, _ := os.ReadFile(filepath.Join(work, "y.out"))
		if !bytes.Equal(got, content[f.Rel]) {
			bad("roundtrip-file-differs", "%d bytes restored, %d original", len(got), len(content[f.Rel]))
		}
		// the stream written by the tool must also decode with the library
		s, _ := os.ReadFile(filepath.Join(work, "x.knz"))
		if rr := kz.Decompress(s, 2, nil); rr.Err != nil || !bytes.Equal(rr.Out, content[f.Rel]) {
			bad("tool-stream-undecodable-by-library", "%v", rr.Err)
		}
		nontrivial = f.Size > 0
	case "stdio":
		f := c.Files[0]
		r1, so := runTool(work, content[f.Rel], wall, nil, append(copts, "-i", "stdin", "-o", "stdout")...)
		if r1.exit != 0 {
			bad("compress-exit", "stdin->stdout compress exits %d: %s", r1.exit, r1.out)
			return
		}
		r2, back := runTool(work, so, wall, nil, append(dopts, "-i", "stdin", "-o", "stdout")...)
		if r2.exit != 0 {
			bad("decompress-exit", "stdin->stdout decompress exits %d: %s", r2.exit, r2.out)
			return
		}
		if !bytes.Equal(back, content[f.Rel]) {
			bad("roundtrip-stdio-differs", "%d bytes restored, %d original", len(back), len(content[f.Rel]))
		}
		nontrivial = f.Size > 0
	case "stdio-default":
		// stdin as input and nothing else said: the output goes to stdout by default and the default verbosity applies
		f := c.Files[0]
		r1, so := runTool(work, content[f.Rel], wall, nil, append(append([]string{"-c"}, c.Opts...), "-i", "stdin")...)
		if r1.exit != 0 {
			bad("compress-exit", "compress -i stdin (no -o) exits %d: %s", r1.exit, r1.out)
			return
		}
		r2, back := runTool(work, so, wall, nil, append(append([]string{"-d"}, c.DOpts...), "-i", "stdin")...)
		if r2.exit != 0 {
			bad("decompress-exit", "decompress -i stdin (no -o) of what compress -i stdin wrote exits %d: %s", r2.exit, r2.out)
			return
		}
		if !bytes.Equal(back, content[f.Rel]) {
			bad("roundtrip-stdio-differs", "%d bytes restored, %d original", len(back), len(content[f.Rel]))
		}
		nontrivial = f.Size > 0
	case "no-overwrite":
		f := c.Files[0]
		existing := filepath.Join(work, "exists.knz")
		os.WriteFile(existing, []byte("precious content that must survive"), 0o644)
		st0 := snapshot(work)["exists.knz"]
		r1, _ := runTool(work, nil, wall, nil, append(copts, "-i", filepath.Join("t", f.Rel), "-o", "exists.knz")...)
		st1 := snapshot(work)["exists.knz"]
		if r1.exit == 0 {
			bad("overwrite-without-force", "compress onto an existing file without -f exits 0")
		}
		if st0 != st1 {
			bad("overwrite-without-force", "existing output changed without -f (content/inode/mtime)")
		}
		// same for the decompressor
		r0, _ := runTool(work, nil, wall, nil, append(copts, "-i", filepath.Join("t", f.Rel), "-o", "ok.knz")...)
		if r0.exit == 0 {
			os.WriteFile(filepath.Join(work, "exists.out"), []byte("another precious file"), 0o644)
			s0 := snapshot(work)["exists.out"]
			r2, _ := runTool(work, nil, wall, nil, append(dopts, "-i", "ok.knz", "-o", "exists.out")...)
			if r2.exit == 0 || snapshot(work)["exists.out"] != s0 {
				bad("overwrite-without-force", "decompress onto an existing file without -f: exit %d, file changed=%v", r2.exit, snapshot(work)["exists.out"] != s0)
			}
			// in-tree default naming: x.knz next to x already there
			os.WriteFile(filepath.Join(tree, f.Rel+".knz"), []byte("old archive"), 0o644)
			s1 := snapshot(tree)[f.Rel+".knz"]
			r3, _ := runTool(work, nil, wall, nil, append(copts, "-i", filepath.Join("t", f.Rel))...)
			if r3.exit == 0 || snapshot(tree)[f.Rel+".knz"] != s1 {
				bad("overwrite-without-force", "default output name exists: exit %d, file changed=%v", r3.exit, snapshot(tree)[f.Rel+".knz"] != s1)
			}
			os.Remove(filepath.Join(tree, f.Rel+".knz"))
		}
		checkInputsUntouched("no-overwrite runs")
		nontrivial = true
	case "force-overwrite":
		// -f onto an existing, LONGER output: the result must be exactly the new content (no stale tail)
		f := c.Files[0]
		in := filepath.Join("t", f.Rel)
		junk := bytes.Repeat([]byte("stale bytes of the previous output file. "), (2*len(content[f.Rel])+200000)/40)
		for _, viaStdin := range []bool{false, true} {
			os.WriteFile(filepath.Join(work, "o.knz"), junk, 0o644)
			var r1 toolRun
			if viaStdin {
				r1, _ = runTool(work, content[f.Rel], wall, nil, append(copts, "-i", "stdin", "-o", "o.knz", "-f")...)
			} else {
				r1, _ = runTool(work, nil, wall, nil, append(copts, "-i", in, "-o", "o.knz", "-f")...)
			}
			if r1.exit != 0 {
				bad("compress-exit", "forced overwrite (stdin=%v) exits %d: %s", viaStdin, r1.exit, r1.out)
				continue
			}
			s, _ := os.ReadFile(filepath.Join(work, "o.knz"))
			ps, perr := container.Parse(s)
			if perr != nil || (ps.EndBits+7)/8 != len(s) {
				bad("forced-overwrite-leaves-stale-bytes", "compress -f (stdin=%v) onto a longer file: the archive has %d bytes but its block chain ends at byte %d (%v)", viaStdin, len(s), func() int {
					if ps != nil {
						return (ps.EndBits + 7) / 8
					}
					return -1
				}(), perr)
			}
			if rr := kz.Decompress(s, 1, nil); rr.Err != nil || !bytes.Equal(rr.Out, content[f.Rel]) {
				bad("forced-overwrite-corrupt", "compress -f (stdin=%v) onto a longer file does not decode (%v)", viaStdin, rr.Err)
			}
			// and the decompressor: restore onto an existing longer file
			good, _, _ := kz.Compress(content[f.Rel], kz.Cfg{Transform: "LZ", Entropy: "HUFFMAN", BlockSize: 65536, Jobs: 1, Checksum: 32, Hint: int64(len(content[f.Rel]))}, nil)
			os.WriteFile(filepath.Join(work, "g.knz"), good, 0o644)
			os.WriteFile(filepath.Join(work, "restored.out"), junk, 0o644)
			var r2 toolRun
			if viaStdin {
				r2, _ = runTool(work, good, wall, nil, append(dopts, "-i", "stdin", "-o", "restored.out", "-f")...)
			} else {
				r2, _ = runTool(work, nil, wall, nil, append(dopts, "-i", "g.knz", "-o", "restored.out", "-f")...)
			}
			if r2.exit != 0 {
				bad("decompress-exit", "forced overwrite (stdin=%v) exits %d: %s", viaStdin, r2.exit, r2.out)
				continue
			}
			got, _ := os.ReadFile(filepath.Join(work, "restored.out"))
			if !bytes.Equal(got, content[f.Rel]) {
				bad("forced-overwrite-leaves-stale-bytes", "decompress -f (stdin=%v) onto a longer file: %d bytes on disk, %d expected", viaStdin, len(got), len(content[f.Rel]))
			}
		}
		checkInputsUntouched("forced overwrite runs")
		nontrivial = true
	case "same-file":
		f := c.Files[0]
		in := filepath.Join("t", f.Rel)
		r1, _ := runTool(work, nil, wall, nil, append(copts, "-i", in, "-o", in, "-f")...)
		if r1.exit == 0 {
			bad("wrote-to-own-input", "compress with output == input and -f exits 0")
		}
		// through a symlink and a hard link
		os.Symlink(filepath.Join(tree, f.Rel), filepath.Join(work, "link.knz"))
		r2, _ := runTool(work, nil, wall, nil, append(copts, "-i", in, "-o", "link.knz", "-f")...)
		os.Link(filepath.Join(tree, f.Rel), filepath.Join(work, "hard.knz"))
		r3, _ := runTool(work, nil, wall, nil, append(copts, "-i", in, "-o", "hard.knz", "-f")...)
		_ = r2
		_ = r3
		checkInputsUntouched("output aliasing the input")
		nontrivial = true
	case "kill-entry", "kill-exit":
		// the run that is killed: compress --rm (sources = plain files) or decompress --rm (sources = .knz files)
		src := content
		args := append(copts, "-i", "t", "--rm")
		if c.Phase == "decompress" {
			r0, _ := runTool(work, nil, wall, nil, append(copts, "-i", "t", "--rm")...)
			if r0.exit != 0 {
				return // reported by the round trip scenarios
			}
			args = append(dopts, "-i", "t", "--rm")
		}
		inj := fmt.Sprintf("inject=%s:signal=KILL:when=%d", c.Sys, c.N)
		killAfter := time.Duration(0)
		if c.Kind == "kill-exit" {
			inj = fmt.Sprintf("inject=%s:delay_exit=3000000:when=%d", c.Sys, c.N)
			killAfter = 900 * time.Millisecond
		}
		pre := []string{"strace", "-f", "-q", "-o", "/dev/null", "-e", "trace=" + c.Sys, "-e", inj}
		w := wall
		if killAfter > 0 {
			w = killAfter
		}
		tr, _ := runTool(work, nil, w, pre, args...)
		_ = tr
		// state invariant after the kill: every source either still exists intact, or its output is complete
		for rel, orig := range src {
			plain := filepath.Join(tree, rel)
			arch := plain + ".knz"
			pb, perr := os.ReadFile(plain)
			ab, aerr := os.ReadFile(arch)
			plainOK := perr == nil && bytes.Equal(pb, orig)
			archOK := false
			if aerr == nil {
				rr := kz.Decompress(ab, 1, nil)
				archOK = rr.Err == nil && bytes.Equal(rr.Out, orig)
			}
			if c.Phase == "compress" {
				// source = plain file, output = archive
				if !plainOK && !archOK {
					bad("kill-loses-data phase=compress", "after SIGKILL at %s #%d (%s): source %s is gone/damaged (exists=%v) and its archive does not decode to it (exists=%v)", c.Sys, c.N, c.Kind, rel, perr == nil, aerr == nil)
				}
			} else {
				// source = archive, output = plain file
				if !archOK && !plainOK {
					bad("kill-loses-data phase=decompress", "after SIGKILL at %s #%d (%s): archive of %s is gone/damaged (exists=%v) and the restored file is not complete (exists=%v, %d of %d bytes)", c.Sys, c.N, c.Kind, rel, aerr == nil, perr == nil, len(pb), len(orig))
				}
			}
		}
		nontrivial = true
	case "order-trace":
		// syscall trace of a fault-free --rm run: a source may only be unlinked after the last write to its output
		logf := filepath.Join(work, "trace.log")
		pre := []string{"strace", "-f", "-y", "-q", "-o", logf, "-e", "trace=write,pwrite64,unlinkat,unlink,close,fsync,renameat,renameat2"}
		args := append(copts, "-i", "t", "--rm")
		if c.Phase == "decompress" {
			r0, _ := runTool(work, nil, wall, nil, append(copts, "-i", "t", "--rm")...)
			if r0.exit != 0 {
				return
			}
			args = append(dopts, "-i", "t", "--rm")
		}
		tr, _ := runTool(work, nil, wall, pre, args...)
		if tr.exit != 0 {
			bad("traced-run-exit", "exit %d: %s", tr.exit, tr.out)
			return
		}
		b, _ := os.ReadFile(logf)
		unlinked := map[string]int{}
		lastWrite := map[string]int{}
		pendingWrite := map[string]string{} // pid -> path of a write that is still in flight
		pathRe := regexp.MustCompile(`"([^"]+)"`)
		fdRe := regexp.MustCompile(`^\d+<([^>]+)>`)
		resumedRe := regexp.MustCompile(`^(\d+)\s+<\.\.\. (\w+) resumed>`)
		for i, ln := range strings.Split(string(b), "\n") {
			if m := resumedRe.FindStringSubmatch(ln); m != nil {
				if (m[2] == "write" || m[2] == "pwrite64") && pendingWrite[m[1]] != "" {
					lastWrite[pendingWrite[m[1]]] = i // the write completed here
					delete(pendingWrite, m[1])
				}
				continue
			}
			m := traceRe.FindStringSubmatch(ln)
			if m == nil {
				continue
			}
			switch m[2] {
			case "unlinkat", "unlink":
				if q := pathRe.FindStringSubmatch(m[3]); q != nil && !strings.Contains(ln, "= -1") {
					p := q[1]
					if !filepath.IsAbs(p) {
						p = filepath.Join(work, p)
					}
					if _, seen := unlinked[filepath.Clean(p)]; !seen {
						unlinked[filepath.Clean(p)] = i // issued here
					}
				}
			case "write", "pwrite64":
				if q := fdRe.FindStringSubmatch(m[3]); q != nil {
					lastWrite[q[1]] = i
					if strings.Contains(ln, "<unfinished") {
						pendingWrite[m[1]] = q[1]
					}
				}
			}
		}
		for rel := range content {
			srcP, outP := filepath.Join(tree, rel), filepath.Join(tree, rel+".knz")
			if c.Phase == "decompress" {
				srcP, outP = outP, srcP
			}
			u, ok := unlinked[srcP]
			if !ok {
				bad("rm-did-not-remove", "source %s was not unlinked by the --rm run", rel)
				continue
			}
			if w, ok := lastWrite[outP]; ok && w > u {
				bad("unlink-before-last-write phase="+c.Phase, "source %s unlinked (trace line %d) before the last write to its output (line %d)", rel, u, w)
			}
			if _, ok := lastWrite[outP]; !ok && len(content[rel]) > 0 && c.Phase == "decompress" {
				bad("unlink-before-last-write phase="+c.Phase, "no write to the output of %s was traced before the run ended although the source was unlinked", rel)
			}
		}
		nontrivial = true
	}
	return
}

// compareTreeNames checks that exactly the files want[rel]+suffix exist
func compareTreeNames(want map[string][]byte, root, suffix string) string {
	var probs []string
	got := snapshot(root)
	for rel := range want {
		if _, ok := got[rel+suffix]; !ok {
			probs = append(probs, "missing "+rel+suffix)
		}
	}
	for rel := range got {
		if _, ok := want[strings.TrimSuffix(rel, suffix)]; !ok || !strings.HasSuffix(rel, suffix) {
			probs = append(probs, "unexpected "+rel)
		}
	}
	sort.Strings(probs)
	return strings.Join(probs, "; ")
}

func c19(run *core.Run, replay string) {
	run.SetRule("the v2/app binary is built from the working tree and run in fresh scratch trees: (a) random trees (empty files, sub-directories, names with spaces) x levels 0-9 and explicit -t/-e/-b/-j/-x options round-tripped in place with --rm, " +
		"dir -> dir with -f, file -> file, stdin -> stdout, both exit codes 0 and restored bytes identical; (b) existing outputs are never replaced without -f (content, inode and mtime compared), output aliasing the input is refused even with -f, a forced overwrite of a longer file (file and stdin inputs) leaves exactly the new content; " +
		"(c) inputs keep content, inode and mtime without --rm; (d) kill safety of --rm runs (compress and decompress): SIGKILL injected with strace at the ENTRY of the N-th write/close/unlinkat/openat per thread, " +
		"and right AFTER the N-th unlinkat/write/close returned (delay_exit then kill) - afterwards every source must still exist intact or its output must be complete (archives decoded with the library); " +
		"(e) in the syscall trace of fault-free --rm runs every unlink of a source follows the last write to its output. non-trivial = the scenario ran the tool on a non-empty tree; distinct = (kind, tree, options, syscall, N)")
	run.Assume("kill points are at system-call granularity; durability across power loss (fsync ordering) is outside the statement")
	defer func() {
		if cliTmpRoot != "" {
			os.RemoveAll(cliTmpRoot)
		}
	}()
	if _, err := buildCLI(); err != nil {
		run.Violate("C19 cannot-build-tool", err.Error(), nil)
		return
	}
	if _, err := exec.LookPath("strace"); err != nil {
		run.Inconclusive("strace not found: kill points not explored")
	}
	check := func(c *cliCase) {
		vs, nt := runCliCase(c)
		run.Eval(1)
		if nt {
			run.Nontrivial(fmt.Sprintf("%s|%v|%v|%v|%s|%d|%s", c.Kind, c.Files, c.Opts, c.DOpts, c.Sys, c.N, c.Phase))
		}
		run.Count("cases_"+c.Kind, 1)
		for _, v := range vs {
			run.Violate("C19 "+v.kind+" kind="+c.Kind, fmt.Sprintf("opts=%v: %s", c.Opts, v.detail), c)
		}
	}
	if replay != "" {
		var c cliCase
		if err := core.LoadReplay(replay, &c); err != nil {
			run.Violate("C19 replay-unreadable", err.Error(), nil)
			return
		}
		check(&c)
		return
	}
	S := run.Seed
	var cases []*cliCase
	optSets := [][]string{}
	for l := 0; l <= 9; l++ {
		optSets = append(optSets, []string{"-l", fmt.Sprint(l)})
	}
	optSets = append(optSets, []string{"-t", "BWT+RANK+ZRLT", "-e", "ANS0", "-b", "64k", "-j", "4", "-x"}, []string{"-t", "lz", "-e", "huffman", "-b", "1m", "-j", "1", "-x64"},
		[]string{"-t", "TEXT+ROLZX", "-e", "FPAQ", "-b", "256k", "-j", "3"}, []string{"-l", "3", "-s", "-j", "2"}, []string{"-t", "NONE", "-e", "NONE", "-b", "4k", "-j", "8", "-x32"},
		[]string{"-l", "2", "-b", "auto", "-j", "2"}, []string{"-l", "8", "-b", "auto", "-j", "2"}, []string{"-e", "TPAQ", "-t", "NONE", "-b", "auto", "-j", "3"}, []string{"-l", "9", "-b", "auto", "-j", "1"},
		[]string{"-l", "5", "-b", "auto", "-j", "4", "-x"}, []string{"-t", "LZ", "-e", "HUFFMAN", "-s", "-j", "1", "-b", "16k"}, []string{"-l", "4", "-s", "-j", "3", "-b", "32k", "-x64"}, []string{"-t", "TEXT", "-e", "ANS0", "-b", "auto", "-j", "5"})
	nTrees := run.Pick(len(optSets)+4, 200)
	for i := 0; i < nTrees; i++ {
		r := core.Derive(S, "c19tree", i)
		opts := optSets[i%len(optSets)]
		maxSize := 300000
		for k := range opts {
			if k+1 < len(opts) && (opts[k] == "-l" && (opts[k+1] == "7" || opts[k+1] == "8" || opts[k+1] == "9") || opts[k] == "-e" && opts[k+1] == "TPAQ") {
				maxSize = 30000
			}
		}
		files := randomTree(r, 6, maxSize)
		kind := []string{"tree-inplace", "tree-outdir", "tree-inplace", "file", "stdio"}[i%5]
		dj := []string{"-j", fmt.Sprint(1 + r.Intn(4))}
		cases = append(cases, &cliCase{Kind: kind, Files: files, Opts: opts, DOpts: dj, Seed: S*100 + int64(i)})
	}
	for i := 0; i < run.Pick(4, 24); i++ {
		r := core.Derive(S, "c19ow", i)
		cases = append(cases, &cliCase{Kind: "no-overwrite", Files: randomTree(r, 1, 20000), Opts: optSets[(i*3)%len(optSets)], Seed: S + int64(i)})
		cases = append(cases, &cliCase{Kind: "same-file", Files: randomTree(r, 1, 20000), Opts: optSets[(i*5)%len(optSets)], Seed: S + int64(i)})
		cases = append(cases, &cliCase{Kind: "force-overwrite", Files: randomTree(r, 1, 70000), Opts: optSets[(i*7)%len(optSets)], DOpts: []string{"-j", "2"}, Seed: S + int64(i)})
		cases = append(cases, &cliCase{Kind: "stdio-default", Files: randomTree(r, 1, 50000), Opts: optSets[(i*17)%len(optSets)], DOpts: []string{"-j", "2"}, Seed: S + int64(i)})
		cases = append(cases, &cliCase{Kind: "rm-none", Files: randomTree(r, 1, 20000), Opts: optSets[(i*11)%len(optSets)], DOpts: []string{"-j", "1"}, Seed: S + int64(i)})
		cases = append(cases, &cliCase{Kind: []string{"tree-outdir-noforce", "tree-outdir-dotslash", "tree-outdir-slash"}[i%3], Files: append(randomTree(r, 4, 20000), cliTreeFile{Rel: "sub/deep/x.txt", Shape: "text", Size: 3000}, cliTreeFile{Rel: "t/t.bin", Shape: "random", Size: 500}),
			Opts: optSets[(i*13)%len(optSets)], DOpts: []string{"-j", "2"}, Seed: S + int64(i)})
	}
	// kill points on --rm runs
	killTree := []cliTreeFile{{"a.txt", "text", 200000}, {"sub/b.bin", "random", 70000}, {"sub/empty", "text", 0}, {"c.dat", "html", 400000}}
	killOpts := [][]string{{"-l", "1", "-j", "1", "-b", "64k"}, {"-l", "2", "-j", "3", "-b", "64k"}}
	for _, ph := range []string{"compress", "decompress"} {
		for oi, ko := range killOpts {
			cases = append(cases, &cliCase{Kind: "order-trace", Files: killTree, Opts: ko, DOpts: []string{"-j", fmt.Sprint(1 + 2*oi)}, Seed: S, Phase: ph})
			for _, sc := range []string{"unlinkat", "write", "close", "openat"} {
				maxN := map[string]int{"unlinkat": 4, "write": 6, "close": 8, "openat": 10}[sc]
				for n := 1; n <= maxN; n++ {
					if !run.Thorough() && (sc == "openat" || sc == "close") && (n+oi)%2 == 0 {
						continue
					}
					cases = append(cases, &cliCase{Kind: "kill-entry", Files: killTree, Opts: ko, DOpts: []string{"-j", fmt.Sprint(1 + 2*oi)}, Seed: S, Sys: sc, N: n, Phase: ph})
				}
			}
			for _, sc := range []string{"unlinkat", "write", "close"} {
				maxN := map[string]int{"unlinkat": 4, "write": 4, "close": 6}[sc]
				for n := 1; n <= maxN; n++ {
					if !run.Thorough() && sc != "unlinkat" && (n+oi)%2 == 0 {
						continue
					}
					cases = append(cases, &cliCase{Kind: "kill-exit", Files: killTree, Opts: ko, DOpts: []string{"-j", fmt.Sprint(1 + 2*oi)}, Seed: S, Sys: sc, N: n, Phase: ph})
				}
			}
		}
	}
	if run.Thorough() {
		for i := 0; i < 150; i++ {
			r := core.Derive(S, "c19kill", i)
			cases = append(cases, &cliCase{Kind: []string{"kill-entry", "kill-exit"}[i%2], Files: randomTree(r, 5, 300000), Opts: optSets[r.Intn(7)], DOpts: []string{"-j", "2"}, Seed: S + int64(i),
				Sys: []string{"unlinkat", "write", "close", "openat"}[r.Intn(4)], N: 1 + r.Intn(12), Phase: []string{"compress", "decompress"}[r.Intn(2)]})
		}
	}
	core.ParallelDo(len(cases), 12, func(i int) { check(cases[i]) })
	for i := 0; i < 6; i++ {
		run.Sample(cases[(i*7919+1)%len(cases)])
	}
}

func init() { register("C19", "fault_enumeration", c19) }
