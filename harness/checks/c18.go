package checks

import (
	"bytes"
	"encoding/json"
	"fmt"
	"os"
	"path/filepath"
	"regexp"
	"sort"
	"strings"
	"sync"
	"sync/atomic"
	"time"

	kanzi "github.com/flanglet/kanzi-go/v2"
	kio "github.com/flanglet/kanzi-go/v2/io"

	"verifharness/core"
	"verifharness/gen"
	"verifharness/kz"
	"verifharness/sched"
)

// C18: independent streams do not interfere; no data race inside the library (race detector build).

type racePipe struct {
	Cfg     kz.Cfg `json:"cfg"`
	Shape   string `json:"shape"`
	Size    int    `json:"size"`
	DecJ    uint   `json:"dec_jobs"`
	Verbose uint   `json:"verbosity"`
	Listen  bool   `json:"listeners"`
	From    int    `json:"from,omitempty"`    // decode a block range (tasks that skip their block share the batch with tasks that decode)
	To      int    `json:"to,omitempty"`      //
	Damage  bool   `json:"damaged,omitempty"` // decode a damaged copy: the error / cancel path of the tasks runs under the race detector
}

type raceWork struct {
	Pipes  []racePipe `json:"pipes"`
	Rounds int        `json:"rounds"`
	Seed   int64      `json:"seed"`
	Width  int        `json:"concurrent_pipelines"`
}

type raceWorkResult struct {
	Runs       int      `json:"pipeline_runs"`
	Mismatches []string `json:"mismatches"`
	Errors     []string `json:"errors"`
	Events     int64    `json:"listener_events"`
	MaxGor     int      `json:"max_goroutines"`
	HookCalls  int64    `json:"hook_calls"`
	IsoMs      []string `json:"isolated_ms"`
	Overlaps   []string `json:"bwt_worker_overlaps"`
	BWTInv     int      `json:"bwt_inverses"`
	BWTPar     int      `json:"bwt_inverses_with_several_workers"`
}

type atomicListener struct{ n *int64 }

func (l atomicListener) ProcessEvent(evt *kanzi.Event) { atomic.AddInt64(l.n, 1) }

func runPipe(p *racePipe, data []byte, events *int64) (stream, back []byte, err error) {
	sink := &kz.Sink{}
	ctx := map[string]any{"transform": p.Cfg.Transform, "entropy": p.Cfg.Entropy, "blockSize": p.Cfg.BlockSize, "jobs": p.Cfg.Jobs,
		"checksum": p.Cfg.Checksum, "fileSize": int64(len(data)), "headerless": false}
	if p.Verbose > 0 {
		ctx["verbosity"] = p.Verbose
	}
	w, e := kio.NewWriterWithCtx(sink, ctx)
	if e != nil {
		return nil, nil, e
	}
	if p.Listen {
		w.AddListener(atomicListener{events})
	}
	for off := 0; off < len(data); off += 100000 {
		if _, e := w.Write(data[off:min(off+100000, len(data))]); e != nil {
			return nil, nil, e
		}
	}
	if e := w.Close(); e != nil {
		return nil, nil, e
	}
	stream = sink.Bytes()
	want := data
	if p.From > 0 || p.To > 0 {
		B := int(p.Cfg.BlockSize)
		lo, hi := 0, len(data)
		if p.From > 0 {
			lo = min((p.From-1)*B, len(data))
		}
		if p.To > 0 {
			hi = max(lo, min((p.To-1)*B, len(data)))
		}
		want = data[lo:hi]
	}
	rctx := map[string]any{"jobs": p.DecJ}
	if p.From > 0 {
		rctx["from"] = p.From
	}
	if p.To > 0 {
		rctx["to"] = p.To
	}
	in := stream
	if p.Damage {
		in = append([]byte(nil), stream...)
		in[len(in)*3/5] ^= 0x20
		in[len(in)*3/5+1] ^= 0x01
	}
	if p.Verbose > 0 {
		rctx["verbosity"] = p.Verbose
	}
	r, e := kio.NewReaderWithCtx(&kz.Source{Data: in}, rctx)
	if e != nil {
		return stream, nil, e
	}
	if p.Listen {
		r.AddListener(atomicListener{events})
	}
	rr := kz.ReadAll(r, []int{70000}, 0, len(data)+1<<20)
	r.Close()
	if p.Damage {
		// whatever was delivered before the error must be a prefix of the original; the caller compares "back" with the data,
		// so hand the data back when the outcome is acceptable
		if len(rr.Out) <= len(data) && bytes.Equal(rr.Out, data[:len(rr.Out)]) && (rr.Err != nil || len(rr.Out) == len(data)) {
			return stream, data, nil
		}
		return stream, rr.Out, fmt.Errorf("damaged stream: %d bytes returned, err=%v", len(rr.Out), rr.Err)
	}
	if rr.Err != nil {
		return stream, rr.Out, rr.Err
	}
	if p.From > 0 || p.To > 0 {
		if bytes.Equal(rr.Out, want) {
			return stream, data, nil
		}
		return stream, rr.Out, nil // reported as "decompressed bytes differ"
	}
	return stream, rr.Out, nil
}

func runRaceWork(wk *raceWork) (res raceWorkResult) {
	installBWTMonitor()
	defer func() { res.Overlaps, res.BWTInv, res.BWTPar = flushBWTMonitor() }()
	var events int64
	var hookCalls int64
	datas := make([][]byte, len(wk.Pipes))
	isoStream := make([][]byte, len(wk.Pipes))
	// isolated reference runs (one pipeline at a time, hooks off)
	for i := range wk.Pipes {
		p := &wk.Pipes[i]
		datas[i] = gen.Make(p.Shape, p.Size, wk.Seed+int64(i))
		t0 := time.Now()
		s, b, err := runPipe(p, datas[i], &events)
		res.IsoMs = append(res.IsoMs, fmt.Sprintf("%6dms %v %s %d", time.Since(t0).Milliseconds(), p.Cfg, p.Shape, p.Size))
		if err != nil {
			res.Errors = append(res.Errors, fmt.Sprintf("isolated pipeline %d (%v): %v", i, p.Cfg, err))
			continue
		}
		if !bytes.Equal(b, datas[i]) {
			res.Errors = append(res.Errors, fmt.Sprintf("isolated pipeline %d (%v): round trip mismatch", i, p.Cfg))
		}
		isoStream[i] = s
	}
	// concurrent rounds with scheduling perturbation at the hand-off hooks
	pert := sched.NewPerturb(uint64(wk.Seed), 2, sched.Fault{})
	_ = pert
	kio.SetVerifStepHook(func(side int, id int32, step int, token *int32) {
		if step == kio.VerifSpin {
			yield() // a waiting task gives way instead of burning its time slice
			return
		}
		n := atomic.AddInt64(&hookCalls, 1)
		switch (uint64(n)*0x9E3779B97F4A7C15 + uint64(wk.Seed)) >> 61 {
		case 0, 1:
			yield()
		case 2:
			if step != kio.VerifSpin {
				time.Sleep(time.Duration(n%97) * time.Microsecond)
			}
		}
	})
	defer kio.SetVerifStepHook(nil)
	var mu sync.Mutex
	for round := 0; round < wk.Rounds; round++ {
		// vary the number of processors: with few Ps many tasks share a P (per-P caches change hands, long run queues)
		prev := setMaxProcs([]int{0, 4, 0, 2}[round%4])
		defer setMaxProcs(prev)
		sem := make(chan struct{}, wk.Width)
		var wg sync.WaitGroup
		for i := range wk.Pipes {
			if isoStream[i] == nil {
				continue
			}
			wg.Add(1)
			go func(i int) {
				defer wg.Done()
				sem <- struct{}{}
				defer func() { <-sem }()
				g := numGoroutines()
				mu.Lock()
				if g > res.MaxGor {
					res.MaxGor = g
				}
				mu.Unlock()
				s, b, err := runPipe(&wk.Pipes[i], datas[i], &events)
				mu.Lock()
				defer mu.Unlock()
				res.Runs++
				if err != nil {
					res.Errors = append(res.Errors, fmt.Sprintf("round %d pipeline %d (%v): %v", round, i, wk.Pipes[i].Cfg, err))
					return
				}
				if !bytes.Equal(s, isoStream[i]) {
					res.Mismatches = append(res.Mismatches, fmt.Sprintf("round %d pipeline %d (%v): compressed stream differs from the isolated run", round, i, wk.Pipes[i].Cfg))
				}
				if !bytes.Equal(b, datas[i]) {
					res.Mismatches = append(res.Mismatches, fmt.Sprintf("round %d pipeline %d (%v): decompressed bytes differ from the original", round, i, wk.Pipes[i].Cfg))
				}
			}(i)
		}
		wg.Wait()
	}
	res.Events = atomic.LoadInt64(&events)
	res.HookCalls = atomic.LoadInt64(&hookCalls)
	return
}

// coldWork: a FRESH process whose very first use of a codec is made by several goroutines at the same time (lazily built
// shared tables, once-only initialisers, pools): no sequential warm-up run precedes the concurrent one
type coldWork struct {
	Pipes  []racePipe `json:"pipes"`
	Seed   int64      `json:"seed"`
	Expect []string   `json:"expected_stream_sha256"` // computed by the parent (alone, sequentially)
}

func runColdWork(wk *coldWork) (res raceWorkResult) {
	var events int64
	datas := make([][]byte, len(wk.Pipes))
	for i := range wk.Pipes {
		datas[i] = gen.Make(wk.Pipes[i].Shape, wk.Pipes[i].Size, wk.Seed+int64(i))
	}
	start := make(chan struct{})
	var wg sync.WaitGroup
	var mu sync.Mutex
	for i := range wk.Pipes {
		wg.Add(1)
		go func(i int) {
			defer wg.Done()
			<-start
			s, b, err := runPipe(&wk.Pipes[i], datas[i], &events)
			mu.Lock()
			defer mu.Unlock()
			res.Runs++
			if err != nil {
				res.Errors = append(res.Errors, fmt.Sprintf("cold pipeline %d (%v): %v", i, wk.Pipes[i].Cfg, err))
				return
			}
			if h := core.Sha256Hex(s); i < len(wk.Expect) && wk.Expect[i] != "" && h != wk.Expect[i] {
				res.Mismatches = append(res.Mismatches, fmt.Sprintf("cold pipeline %d (%v): the stream produced while other goroutines made their first use of the codec differs from the stream produced alone", i, wk.Pipes[i].Cfg))
			}
			if !bytes.Equal(b, datas[i]) {
				res.Mismatches = append(res.Mismatches, fmt.Sprintf("cold pipeline %d (%v): decompressed bytes differ from the original", i, wk.Pipes[i].Cfg))
			}
		}(i)
	}
	close(start)
	wg.Wait()
	res.Events = atomic.LoadInt64(&events)
	return
}

var raceBlockRe = regexp.MustCompile(`(?s)WARNING: DATA RACE\n(.*?)\n==================`)
var lineNoRe = regexp.MustCompile(`:\d+( \+0x[0-9a-f]+)?`)
var addrRe = regexp.MustCompile(`0x[0-9a-f]+`)

type raceReport struct {
	Key     string
	Text    string
	InKanzi bool
	Sites   []string
}

// parseRaceLogs reads the GORACE log files and de-duplicates reports by the pair of top kanzi frames
// and the line-stripped stack pair
func parseRaceLogs(prefix string) (reports []raceReport, total int) {
	files, _ := filepath.Glob(prefix + "*")
	seen := map[string]bool{}
	for _, f := range files {
		b, err := os.ReadFile(f)
		if err != nil {
			continue
		}
		for _, m := range raceBlockRe.FindAllStringSubmatch(string(b), -1) {
			total++
			text := m[1]
			var frames []string
			var kanziFrames []string
			for _, ln := range strings.Split(text, "\n") {
				t := strings.TrimSpace(ln)
				if strings.HasPrefix(t, "github.com/flanglet/kanzi-go/v2/") || strings.HasPrefix(t, "verifharness/") || strings.HasPrefix(t, "kanziref/") {
					fn := t
					if k := strings.LastIndex(fn, "("); k > 0 {
						fn = fn[:k]
					}
					frames = append(frames, fn)
					if strings.HasPrefix(t, "github.com/flanglet/kanzi-go/v2/") {
						kanziFrames = append(kanziFrames, strings.TrimPrefix(fn, "github.com/flanglet/kanzi-go/v2/"))
					}
				}
			}
			inKanzi := false
			repoRoot := os.Getenv("REPO_ROOT")
			if repoRoot == "" {
				repoRoot = "/repo"
			}
			for _, ln := range strings.Split(text, "\n") {
				if strings.Contains(ln, repoRoot+"/v2/") && !strings.Contains(ln, "verif_on.go") {
					inKanzi = true
				}
			}
			key := strings.Join(frames, "|")
			key = lineNoRe.ReplaceAllString(key, "")
			if seen[key] {
				continue
			}
			seen[key] = true
			sites := kanziFrames
			if len(sites) > 4 {
				sites = sites[:4]
			}
			clean := addrRe.ReplaceAllString(text, "0x..")
			reports = append(reports, raceReport{Key: key, Text: core.Trunc(clean, 2500), InKanzi: inKanzi, Sites: sites})
		}
	}
	return
}

func init() {
	core.RegisterChild("c18", func(raw json.RawMessage) any {
		var wk raceWork
		if err := json.Unmarshal(raw, &wk); err != nil {
			return raceWorkResult{Errors: []string{err.Error()}}
		}
		return runRaceWork(&wk)
	})
	core.RegisterChild("c18cold", func(raw json.RawMessage) any {
		var wk coldWork
		if err := json.Unmarshal(raw, &wk); err != nil {
			return raceWorkResult{Errors: []string{err.Error()}}
		}
		return runColdWork(&wk)
	})
	register("C18", "exploration", c18)
}

func c18(run *core.Run, replay string) {
	run.SetRule("race-detector build of the harness and of /repo/v2 (go build -race -tags verif); K concurrent compress+decompress pipelines covering all 19 transforms and 9 entropy codecs (shared static tables in use at once), " +
		"jobs 1..16 inside each, a > 4 MiB BWT block decoded with several jobs (parallel inverse BWT workers), listeners attached with verbosity 5, decoders with block ranges starting inside a batch, decoders of damaged streams (error / cancel paths), one FRESH process per codec whose first use of that codec is made by 4 goroutines at once (lazy initialisers), scheduling perturbed through the hand-off hooks (yields / sleeps), repeated rounds; " +
		"every stream and every decompressed output is compared with the isolated run; the race log (GORACE halt_on_error=0 log_path) is parsed, reports de-duplicated by stack pair and attributed: a report with a frame in kanzi-go/v2 is a violation. " +
		"non-trivial = a pipeline run with jobs > 1 or next to other pipelines; distinct = (pipeline config, round)")
	run.Assume("the race detector only sees executed interleavings; reports whose frames are all in the harness would be harness bugs and are listed separately")
	if !raceEnabled {
		run.Violate("C18 harness-not-built-with-race", "the vcheck binary was built without -race; use bin/check C18", nil)
		return
	}
	S := run.Seed
	var pipes []racePipe
	shapes := []string{"text", "dna", "elfx86", "wav", "cyrillic", "runs", "html", "repeatblocks", "skewed", "utf8dirty"}
	for i, t := range kz.Transforms {
		e := kz.Entropies[i%len(kz.Entropies)]
		size := run.Pick(120000, 600000)
		if kz.Heavy(e) {
			size = run.Pick(16000, 100000)
		}
		pipes = append(pipes, racePipe{Cfg: kz.Cfg{Transform: t, Entropy: e, BlockSize: uint(run.Pick(16384, 32768)), Jobs: uint(1 + i%8), Checksum: []uint{0, 32, 64}[i%3]}, Shape: shapes[i%len(shapes)], Size: size,
			DecJ: uint(1 + (i*3)%7), Verbose: []uint{0, 5, 1}[i%3], Listen: i%3 != 0})
	}
	for i, lc := range kz.LevelChains {
		size := run.Pick(150000, 800000)
		if kz.Heavy(lc[1]) {
			size = run.Pick(20000, 120000)
		}
		pipes = append(pipes, racePipe{Cfg: kz.Cfg{Transform: lc[0], Entropy: lc[1], BlockSize: uint(run.Pick(16384, 65536)), Jobs: uint(2 + i%15), Checksum: 32}, Shape: shapes[(i*3)%len(shapes)], Size: size, DecJ: uint(16 - i), Verbose: 5, Listen: true})
	}
	// parallel inverse BWT workers: one block > 4 MiB, several jobs for that block (hint in the header)
	pipes = append(pipes, racePipe{Cfg: kz.Cfg{Transform: "BWT", Entropy: "ANS0", BlockSize: 8 << 20, Jobs: 4, Checksum: 32}, Shape: "html", Size: 4<<20 + 200000, DecJ: 6, Listen: true, Verbose: 5})
	// blocks whose eighth is an odd number of bytes (the chunks of the parallel inverse BWT then end on odd positions), 8 and 3 workers
	pipes = append(pipes, racePipe{Cfg: kz.Cfg{Transform: "BWT", Entropy: "NONE", BlockSize: 8 << 20, Jobs: 1, Checksum: 32}, Shape: "text", Size: 4394312, DecJ: 8})
	pipes = append(pipes, racePipe{Cfg: kz.Cfg{Transform: "BWT", Entropy: "HUFFMAN", BlockSize: 8 << 20, Jobs: 1, Checksum: 0}, Shape: "html", Size: 4394325, DecJ: 3})
	for i, ch := range []string{"EXE+LZ", "TEXT+UTF+EXE+PACK+MM+ROLZ", "EXE+PACK"} {
		pipes = append(pipes, racePipe{Cfg: kz.Cfg{Transform: ch, Entropy: "NONE", BlockSize: 262144, Jobs: uint(3 + i), Checksum: 32}, Shape: []string{"elfx86", "text", "pe"}[i], Size: 4*262144 + 1000, DecJ: 3})
	}
	pipes = append(pipes, racePipe{Cfg: kz.Cfg{Transform: "TEXT", Entropy: "HUFFMAN", BlockSize: 1024, Jobs: 16, Checksum: 64}, Shape: "text", Size: run.Pick(24000, 200000), DecJ: 64, Listen: true, Verbose: 5})
	// block ranges starting inside a batch and spanning several batches; damaged streams (error / cancel paths)
	for i, cf2 := range [][2]string{{"NONE", "NONE"}, {"LZ", "HUFFMAN"}, {"BWT", "ANS0"}, {"TEXT", "FPAQ"}} {
		for k, fr := range [][2]int{{2, 0}, {6, 15}, {3, 9}} {
			pipes = append(pipes, racePipe{Cfg: kz.Cfg{Transform: cf2[0], Entropy: cf2[1], BlockSize: 4096, Jobs: uint(2 + i), Checksum: []uint{32, 0}[k%2]}, Shape: shapes[(i+k)%len(shapes)], Size: 18*4096 + 100, DecJ: uint(3 + (i+k)%6), From: fr[0], To: fr[1], Listen: k == 1, Verbose: uint(5 * (k % 2))})
		}
		pipes = append(pipes, racePipe{Cfg: kz.Cfg{Transform: cf2[0], Entropy: cf2[1], BlockSize: 4096, Jobs: uint(2 + i), Checksum: 32}, Shape: shapes[i%len(shapes)], Size: 14*4096 + 100, DecJ: uint(3 + i), Damage: true})
	}
	wk := &raceWork{Pipes: pipes, Rounds: run.Pick(2, 8), Seed: S, Width: 16}
	// several UTF / TEXT pipelines side by side (package-level state of a codec is only exposed when two instances overlap)
	for i := 0; i < 4; i++ {
		wk.Pipes = append(wk.Pipes, racePipe{Cfg: kz.Cfg{Transform: []string{"UTF", "TEXT+UTF"}[i%2], Entropy: "NONE", BlockSize: 16384, Jobs: uint(1 + 3*(i%2)), Checksum: 32}, Shape: []string{"cyrillic", "cjk"}[i/2], Size: 100000, DecJ: 2})
	}
	pipes = wk.Pipes
	if replay != "" {
		core.LoadReplay(replay, wk)
	}
	logDir := filepath.Join(core.VerifRoot(), ".work", "race")
	os.MkdirAll(logDir, 0o755)
	prefix := filepath.Join(logDir, fmt.Sprintf("c18-%d-", os.Getpid()))
	old, _ := filepath.Glob(prefix + "*")
	for _, f := range old {
		os.Remove(f)
	}
	results := core.RunIsolated("c18", []any{wk}, core.IsoOpts{Workers: 1, WallBudget: 4 * time.Hour,
		Env: []string{"GORACE=halt_on_error=0 history_size=4 log_path=" + prefix + "log"}})
	r := results[0]
	if r.Status != "ok" {
		if r.Status == "crash" {
			run.Violate("C18 process-death", core.Trunc(r.Detail, 1500), wk)
		} else {
			run.Inconclusive("race workload " + r.Status)
		}
	} else {
		var res raceWorkResult
		json.Unmarshal(r.Out, &res)
		run.Eval(res.Runs + len(pipes))
		for i, p := range pipes {
			for rd := 0; rd < wk.Rounds; rd++ {
				run.Nontrivial(fmt.Sprintf("%v|%d|r%d", p.Cfg, i, rd))
			}
			run.Seen("codec_cells", p.Cfg.Transform+"/"+p.Cfg.Entropy)
		}
		run.Count("pipeline_runs_concurrent", res.Runs)
		run.Count("listener_events", int(res.Events))
		run.Count("max_goroutines_observed", res.MaxGor)
		run.Count("hook_calls_perturbed", int(res.HookCalls))
		sort.Sort(sort.Reverse(sort.StringSlice(res.IsoMs)))
		run.SetExtra("isolated_pipeline_cost", res.IsoMs)
		for _, m := range res.Mismatches {
			run.Violate("C18 output-differs-under-concurrency", m, wk)
		}
		run.Count("inverse_bwt_observed", res.BWTInv)
		run.Count("inverse_bwt_with_several_workers", res.BWTPar)
		for _, o := range res.Overlaps {
			run.Violate("C18 inverse-bwt-workers-write-the-same-byte", o, wk)
		}
		for _, e := range res.Errors {
			run.Violate("C18 pipeline-error", e, wk)
		}
	}
	// cold starts: one fresh process per codec; its first use of the codec is made by 4 goroutines at once
	var colds []*coldWork
	mkCold := func(t, e string, shape string, size int) {
		cw := &coldWork{Seed: S + int64(len(colds))}
		for k := 0; k < 4; k++ {
			cw.Pipes = append(cw.Pipes, racePipe{Cfg: kz.Cfg{Transform: t, Entropy: e, BlockSize: 8192, Jobs: uint(1 + 2*(k%2)), Checksum: 32}, Shape: shape, Size: size + 8192*(k%2), DecJ: uint(1 + k%3)})
		}
		colds = append(colds, cw)
	}
	for i, t := range kz.Transforms {
		mkCold(t, "NONE", shapes[i%len(shapes)], 40000)
	}
	for _, e := range kz.Entropies {
		mkCold("NONE", e, "text", 24000)
	}
	for i, lc := range kz.LevelChains {
		mkCold(lc[0], lc[1], shapes[(i*3)%len(shapes)], 24000)
	}
	for _, cw := range colds {
		// expected streams: the same pipelines run alone, one after the other, in this (warm) process
		var ev int64
		for i := range cw.Pipes {
			st, _, err := runPipe(&cw.Pipes[i], gen.Make(cw.Pipes[i].Shape, cw.Pipes[i].Size, cw.Seed+int64(i)), &ev)
			if err != nil {
				cw.Expect = append(cw.Expect, "")
			} else {
				cw.Expect = append(cw.Expect, core.Sha256Hex(st))
			}
		}
	}
	var cmu sync.Mutex
	core.ParallelDo(len(colds), 6, func(i int) {
		rs := core.RunIsolated("c18cold", []any{colds[i]}, core.IsoOpts{Workers: 1, WallBudget: 20 * time.Minute,
			Env: []string{"GORACE=halt_on_error=0 history_size=4 log_path=" + prefix + "log"}})
		cmu.Lock()
		defer cmu.Unlock()
		cr := rs[0]
		if cr.Status == "crash" {
			run.Violate("C18 process-death phase=cold-start", core.Trunc(cr.Detail, 1500), colds[i])
			return
		}
		if cr.Status != "ok" {
			run.Inconclusive("cold-start workload " + cr.Status)
			return
		}
		var res raceWorkResult
		json.Unmarshal(cr.Out, &res)
		run.Eval(res.Runs)
		run.Count("cold_start_processes", 1)
		run.Count("cold_start_pipeline_runs", res.Runs)
		run.Nontrivial(fmt.Sprintf("cold|%v", colds[i].Pipes[0].Cfg))
		for _, m := range res.Mismatches {
			run.Violate("C18 output-differs-under-concurrency phase=cold-start", m, colds[i])
		}
		for _, e := range res.Errors {
			run.Violate("C18 pipeline-error phase=cold-start", e, colds[i])
		}
	})
	reports, total := parseRaceLogs(prefix)
	run.Count("race_reports_total", total)
	run.Count("race_reports_distinct", len(reports))
	sort.Slice(reports, func(a, b int) bool { return reports[a].Key < reports[b].Key })
	for _, rp := range reports {
		if rp.InKanzi {
			sig := "C18 data-race sites=" + strings.Join(rp.Sites, ",")
			run.Violate(sig, rp.Text, map[string]any{"workload": "bin/check C18", "report": rp.Text})
		} else {
			run.Count("race_reports_in_harness_only", 1)
			run.Inconclusive("race report without a kanzi-go frame (harness?): " + core.Trunc(rp.Text, 600))
		}
	}
	for _, f := range func() []string { f, _ := filepath.Glob(prefix + "*"); return f }() {
		os.Remove(f)
	}
	run.Sample(pipes[1])
	run.Sample(pipes[len(pipes)-3])
}
