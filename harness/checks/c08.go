package checks

import (
	"bytes"
	"errors"
	"fmt"
	"io"

	kio "github.com/flanglet/kanzi-go/v2/io"

	"verifharness/core"
	"verifharness/kz"
)

// C08: I/O failures of the sink / source are never swallowed (fault enumeration over the call index).

var errInjected = errors.New("injected I/O failure")

type faultSink struct {
	buf      bytes.Buffer
	writes   int
	closes   int
	failAt   int  // 1-based index of the Write call that fails (0 = none)
	sticky   bool // every Write/Close from failAt on fails
	partial  bool // the failing Write accepts half of the bytes first
	closeErr int  // 1-based index of the Close call that fails (0 = none)
	injected bool
}

func (s *faultSink) Write(p []byte) (int, error) {
	s.writes++
	if s.failAt > 0 && (s.writes == s.failAt || (s.sticky && s.writes > s.failAt)) {
		s.injected = true
		if s.partial && len(p) > 1 {
			n := len(p) / 2
			s.buf.Write(p[:n])
			return n, errInjected
		}
		return 0, errInjected
	}
	return s.buf.Write(p)
}

func (s *faultSink) Close() error {
	s.closes++
	if s.closeErr > 0 && (s.closes == s.closeErr || (s.sticky && s.closes > s.closeErr)) {
		s.injected = true
		return errInjected
	}
	if s.sticky && s.failAt > 0 && s.writes >= s.failAt {
		s.injected = true
		return errInjected
	}
	return nil
}

type faultSource struct {
	data     []byte
	pos      int
	reads    int
	failAt   int
	sticky   bool
	withData bool // the failing call also returns some bytes
	injected bool
	chunk    int // > 0: short reads of at most chunk bytes
	posFault int // bytes already delivered when the (first) fault was injected
}

func (s *faultSource) Read(p []byte) (int, error) {
	s.reads++
	if s.failAt > 0 && (s.reads == s.failAt || (s.sticky && s.reads > s.failAt)) {
		first := !s.injected
		if first {
			s.posFault = s.pos
		}
		s.injected = true
		if s.withData && s.pos < len(s.data) && len(p) > 0 {
			n := min(len(p), len(s.data)-s.pos, 1000)
			copy(p, s.data[s.pos:s.pos+n])
			s.pos += n
			if first {
				s.posFault = s.pos // what the source had handed over when the failing call returned
			}
			return n, errInjected
		}
		return 0, errInjected
	}
	if s.pos >= len(s.data) {
		return 0, io.EOF
	}
	if s.chunk > 0 && len(p) > s.chunk {
		p = p[:s.chunk]
	}
	n := copy(p, s.data[s.pos:])
	s.pos += n
	return n, nil
}
func (s *faultSource) Close() error { return nil }

type fiCase struct {
	R      recipe `json:"recipe"`
	Side   string `json:"side"` // sink | sink-close | source
	K      int    `json:"k"`    // call index of the fault (0 = fault-free counting run)
	Mode   string `json:"mode"` // transient | retry | sticky | partial | withdata
	Jobs   uint   `json:"jobs"`
	WriteN int    `json:"write_chunk"`
	From   int    `json:"from,omitempty"`      // source side: block range given to the Reader (0 = none)
	To     int    `json:"to,omitempty"`        //
	SrcN   int    `json:"src_chunk,omitempty"` // source side: short reads of at most this many bytes (0 = as asked)
}

type fiObs struct {
	kind, detail string
	calls        int
	injected     bool
	masked       bool
}

func runSinkCase(c *fiCase) (o fiObs) {
	data, _, err := c.R.build()
	if err != nil {
		return
	}
	sink := &faultSink{sticky: c.Mode == "sticky" || c.Mode == "persist", partial: c.Mode == "partial" || c.Mode == "partial-retry"}
	if c.Side == "sink" {
		sink.failAt = c.K
	} else {
		sink.closeErr = c.K
	}
	cf := c.R.Cfg
	cf.Jobs = c.Jobs
	if cf.Hint < 0 {
		cf.Hint = int64(len(data))
	}
	var w *kio.Writer
	if p := catch(func() {
		w, err = kio.NewWriter(sink, cf.Transform, cf.Entropy, cf.BlockSize, cf.Jobs, cf.Checksum, cf.Hint, cf.Headerless)
	}); p != nil || err != nil {
		return fiObs{kind: "harness", detail: fmt.Sprint(p, err)}
	}
	var accepted []byte
	errSeen := false
	var firstErr error
	chunk := c.WriteN
	if chunk <= 0 {
		chunk = len(data)
	}
	if c.Mode == "persist" {
		chunk = min(chunk, int(cf.BlockSize)/2+1)
	}
	for off := 0; off < len(data); {
		n := min(chunk, len(data)-off)
		var wn int
		var werr error
		if p := catch(func() { wn, werr = w.Write(data[off : off+n]) }); p != nil {
			return fiObs{kind: "panic-escaped op=Write", detail: fmt.Sprintf("fault at %s call %d (%s): %v", c.Side, c.K, c.Mode, p), calls: sink.writes, injected: sink.injected}
		}
		if wn > 0 {
			accepted = append(accepted, data[off:off+wn]...)
		}
		off += n
		if werr != nil {
			errSeen = true
			if firstErr == nil {
				firstErr = werr
			}
			if c.Mode != "persist" {
				break // a client stops writing at the first error and closes
			}
			// "persist": a careless client ignores the error and keeps writing the rest of its data
		}
	}
	closeOK := false
	closes := 1
	if c.Mode == "retry" || c.Mode == "partial-retry" {
		closes = 3
	}
	for i := 0; i < closes; i++ {
		var cerr error
		if p := catch(func() { cerr = w.Close() }); p != nil {
			return fiObs{kind: "panic-escaped op=Close", detail: fmt.Sprintf("fault at %s call %d (%s): %v", c.Side, c.K, c.Mode, p), calls: sink.writes, injected: sink.injected}
		}
		if cerr != nil {
			errSeen = true
			if firstErr == nil {
				firstErr = cerr
			}
		} else {
			closeOK = true
			break
		}
	}
	o.calls = sink.writes
	if c.Side == "sink-close" {
		o.calls = sink.closes
	}
	o.injected = sink.injected
	if !sink.injected {
		// fault-free (or fault index never reached): plain sanity
		if !closeOK || errSeen {
			o.kind, o.detail = "error-without-fault", fmt.Sprint(firstErr)
		}
		return
	}
	if !errSeen {
		o.kind = "fault-swallowed"
		o.detail = fmt.Sprintf("sink %s failed at call %d (%s, jobs %d) but every Write and Close returned nil", map[string]string{"sink": "Write", "sink-close": "Close"}[c.Side], c.K, c.Mode, c.Jobs)
		return
	}
	if closeOK {
		if gw := w.GetWritten(); gw != uint64(sink.buf.Len()) {
			o.kind = "getwritten-differs-from-sink-after-successful-close"
			o.detail = fmt.Sprintf("sink fault at call %d (%s, jobs %d): Close finally returned nil, GetWritten()=%d but the sink received %d bytes", c.K, c.Mode, c.Jobs, gw, sink.buf.Len())
			return
		}
		// success was reported in the end: the sink must hold a complete, valid stream of the accepted bytes
		var hc *kz.Cfg
		if cf.Headerless {
			hc = &cf
		}
		rr := kz.Decompress(sink.buf.Bytes(), 2, hc)
		if rr.Err != nil || !bytes.Equal(rr.Out, accepted) {
			o.kind = "close-success-on-corrupt-sink"
			o.detail = fmt.Sprintf("sink Write failed at call %d (%s, jobs %d; first error: %v); a later Close returned nil but the sink (%d bytes) decodes to %d bytes / err=%v instead of the %d accepted bytes",
				c.K, c.Mode, c.Jobs, firstErr, sink.buf.Len(), len(rr.Out), rr.Err, len(accepted))
		}
	}
	return
}

func runSourceCase(c *fiCase) (o fiObs) {
	data, stream, err := c.R.build()
	if err != nil {
		return
	}
	src := &faultSource{data: stream, failAt: c.K, sticky: c.Mode == "sticky", withData: c.Mode == "withdata", chunk: c.SrcN}
	if c.From > 0 || c.To > 0 {
		// a block range: the expected output is the slice of the original covered by blocks from..to-1
		B := int(c.R.Cfg.BlockSize)
		lo, hi := 0, len(data)
		if c.From > 0 {
			lo = min((c.From-1)*B, len(data))
		}
		if c.To > 0 {
			hi = max(lo, min((c.To-1)*B, len(data)))
		}
		data = data[lo:hi]
	}
	var hc *kz.Cfg
	if c.R.Cfg.Headerless {
		cf := c.R.Cfg
		hc = &cf
	}
	var r *kio.Reader
	if p := catch(func() {
		if c.From > 0 || c.To > 0 {
			ctx := map[string]any{"jobs": c.Jobs}
			if c.From > 0 {
				ctx["from"] = c.From
			}
			if c.To > 0 {
				ctx["to"] = c.To
			}
			r, err = kio.NewReaderWithCtx(src, ctx)
		} else {
			r, err = kz.NewReader(src, c.Jobs, hc)
		}
	}); p != nil || err != nil {
		return fiObs{kind: "harness", detail: fmt.Sprint(p, err)}
	}
	var out []byte
	errSeen := false
	eof := false
	buf := make([]byte, 70000)
	extra := 40
	for calls := 0; calls < 100000; calls++ {
		var n int
		var rerr error
		if p := catch(func() { n, rerr = r.Read(buf) }); p != nil {
			return fiObs{kind: "panic-escaped op=Read", detail: fmt.Sprintf("source fault at call %d (%s): %v", c.K, c.Mode, p), calls: src.reads, injected: src.injected}
		}
		out = append(out, buf[:n]...)
		if rerr == io.EOF {
			eof = true
			break
		}
		if rerr != nil {
			errSeen = true
			extra--
			if extra <= 0 {
				break
			}
		} else if n == 0 {
			extra--
			if extra <= 0 {
				break
			}
		}
	}
	catch(func() { r.Close() })
	o.calls = src.reads
	o.injected = src.injected
	if len(out) > len(data) || !bytes.Equal(out, data[:len(out)]) {
		o.kind = "wrong-bytes-around-source-fault"
		o.detail = fmt.Sprintf("source fault at Read call %d (%s, jobs %d): the %d bytes returned are not a prefix of the original", c.K, c.Mode, c.Jobs, len(out))
		return
	}
	if !src.injected {
		if errSeen || !eof || len(out) != len(data) {
			o.kind, o.detail = "error-without-fault", "fault-free run failed"
		}
		return
	}
	if !errSeen {
		if eof && len(out) < len(data) {
			o.kind = "source-error-became-clean-eof"
			o.detail = fmt.Sprintf("source failed at Read call %d (%s, jobs %d): reader returned %d of %d bytes and io.EOF, no error", c.K, c.Mode, c.Jobs, len(out), len(data))
		} else if !eof {
			o.kind = "source-fault-swallowed"
			o.detail = fmt.Sprintf("source failed at Read call %d (%s, jobs %d): no Read call returned an error or io.EOF (got %d of %d bytes)", c.K, c.Mode, c.Jobs, len(out), len(data))
		} else if src.posFault >= len(stream) {
			// the source had handed over its last byte when the failing call returned (a read-ahead beyond the end marker, or
			// the last bytes delivered together with the error): nothing of the stream was lost or still to come, the
			// stream really is complete - not "a source error turned into a clean end-of-stream"
			o.masked = true
		} else {
			o.kind = "source-fault-swallowed"
			o.detail = fmt.Sprintf("source failed at Read call %d (%s, jobs %d) after delivering %d of its %d bytes: the error never surfaced, every Read returned nil / io.EOF (the data happens to be complete because the source went on delivering)", c.K, c.Mode, c.Jobs, src.posFault, len(stream))
		}
	}
	return
}

func c08(run *core.Run, replay string) {
	run.SetRule("fault enumeration: for every recipe x job count the fault-free run counts the calls N of the sink's Write (and Close) / the source's Read; then the fault is injected at EVERY k in 1..N in modes " +
		"transient, transient + caller retries Close, partial write + caller retries Close, sticky, sticky + client keeps writing after the error (small Write calls), (sink) partial write, (source) error returned together with bytes, (source) the same with short reads and with block ranges given to the Reader (faults while skipped blocks are consumed); the client stops writing at the first error and closes; " +
		"oracle: an injected fault must surface as a non-nil error of some call, no panic may escape, a Close that returns nil implies the sink decodes to exactly the accepted bytes, " +
		"bytes returned by Read are always a prefix of the original and a clean io.EOF implies completeness; non-trivial = the fault was actually injected; distinct = (recipe, side, k, mode, jobs)")
	check := func(c *fiCase) fiObs {
		if core.Hangs() >= 3 {
			return fiObs{}
		}
		o, returned := guarded(func() fiObs {
			if c.Side == "source" {
				return runSourceCase(c)
			}
			return runSinkCase(c)
		})
		if !returned {
			run.Eval(1)
			run.Violate(fmt.Sprintf("C08 hang side=%s mode=%s", c.Side, c.Mode), fmt.Sprintf("[%s] fault at call %d: the API call never returned (60 s, then 180 s)", c.R.Name, c.K), c)
			return fiObs{}
		}
		run.Eval(1)
		if o.injected {
			run.Nontrivial(fmt.Sprintf("%s|%s|%d|%s|%d|%d|%d-%d|%d", c.R.Name, c.Side, c.K, c.Mode, c.Jobs, c.WriteN, c.From, c.To, c.SrcN))
			if c.From > 0 || c.To > 0 {
				run.Count("faults_injected_source_with_block_range", 1)
			}
			run.Count("faults_injected_"+c.Side, 1)
			if o.masked {
				run.Count("source_faults_after_complete_delivery", 1)
			}
		}
		if o.kind != "" && o.kind != "harness" {
			phase := ""
			if c.Side != "source" {
				if c.K == 1 && !c.R.Cfg.Headerless {
					phase = " phase=first-write"
				}
			}
			run.Violate(fmt.Sprintf("C08 %s side=%s mode=%s%s", o.kind, c.Side, c.Mode, phase), fmt.Sprintf("[%s] %s", c.R.Name, o.detail), c)
		}
		return o
	}
	if replay != "" {
		var c fiCase
		if err := core.LoadReplay(replay, &c); err != nil {
			run.Violate("C08 replay-unreadable", err.Error(), nil)
			return
		}
		o := check(&c)
		fmt.Printf("replay: %+v\n", o)
		return
	}
	S := run.Seed
	recs := []recipe{
		{"none-1MiB-blocks", cfg("NONE", "NONE", 1<<20, 1, 0), "random", 3<<20 + 1000, S}, // every block flushes the 256 KiB buffer several times inside its task
		{"none-128K-blocks", cfg("NONE", "NONE", 128<<10, 1, 32), "random", 1300000, S},
		{"lz-64K", cfg("LZ", "HUFFMAN", 65536, 1, 0), "random", 1000000, S},
		{"bwt-ans", cfg("BWT", "ANS0", 262144, 1, 64), "wav", 1500000, S},
		{"small-one-flush", cfg("TEXT", "FPAQ", 4096, 1, 32), "text", 50000, S}, // everything fits the buffer: the only sink write is in Close
		{"headerless", kz.Cfg{Transform: "NONE", Entropy: "NONE", BlockSize: 65536, Jobs: 1, Checksum: 0, Headerless: true}, "random", 700000, S},
		// blocks whose compressed form is >= 256 KiB (the bulk path of the bitstream), several of them, payloads starting on / off byte boundaries
		{"none-512K-blocks", cfg("NONE", "NONE", 512<<10, 1, 0), "random", 5*(512<<10) - 4000, S},
		{"none-512K-blocks-ck32", cfg("NONE", "NONE", 512<<10, 1, 32), "random", 5*(512<<10) - 4000, S},
		{"none-8MiB-block", cfg("NONE", "NONE", 8<<20, 1, 0), "random", 8<<20 - 100, S},
		{"hint", kz.Cfg{Transform: "RLT", Entropy: "NONE", BlockSize: 65536, Jobs: 1, Hint: -1}, "random", 600000, S},
	}
	// streams whose end marker lands exactly on the flush threshold of the 256 KiB bitstream buffer
	for d := 0; d < 24; d++ {
		recs = append(recs, recipe{fmt.Sprintf("end-marker-at-flush-%d", d), cfg("NONE", "NONE", 65536, 1, 0), "random", 262144 - 64 + d, S})
	}
	jobsL := []uint{1, 3}
	if run.Thorough() {
		jobsL = []uint{1, 2, 3, 4}
	}
	var cases []*fiCase
	for ri := range recs {
		edge := len(recs[ri].Name) > 10 && recs[ri].Name[:10] == "end-marker"
		for _, j := range jobsL {
			if edge && j != 1 {
				continue
			}
			wc := []int{0, 100000}[ri%2]
			// counting runs
			base := &fiCase{R: recs[ri], Side: "sink", K: 0, Mode: "transient", Jobs: j, WriteN: wc}
			o := runSinkCase(base)
			if o.kind != "" {
				run.Count("recipe_failed_fault_free", 1)
				continue
			}
			nw := o.calls
			for k := 1; k <= nw; k++ {
				modes := []string{"transient", "retry", "sticky", "persist", "partial-retry"}
				if run.Thorough() || ri < 2 {
					modes = append(modes, "partial")
				}
				for _, m := range modes {
					if edge && m == "partial" {
						continue
					}
					cases = append(cases, &fiCase{R: recs[ri], Side: "sink", K: k, Mode: m, Jobs: j, WriteN: wc})
				}
			}
			if !edge {
				for _, m := range []string{"transient", "retry", "sticky"} {
					cases = append(cases, &fiCase{R: recs[ri], Side: "sink-close", K: 1, Mode: m, Jobs: j, WriteN: wc})
				}
				sb := &fiCase{R: recs[ri], Side: "source", K: 0, Mode: "transient", Jobs: j}
				so := runSourceCase(sb)
				if so.kind != "" {
					run.Count("recipe_failed_fault_free", 1)
					continue
				}
				for k := 1; k <= so.calls; k++ {
					for _, m := range []string{"transient", "sticky", "withdata"} {
						cases = append(cases, &fiCase{R: recs[ri], Side: "source", K: k, Mode: m, Jobs: j})
					}
				}
				run.Seen("call_counts", fmt.Sprintf("%s j=%d: sink writes=%d source reads=%d", recs[ri].Name, j, nw, so.calls))
				// the same enumeration with short reads (the buffer is refilled at other points of the stream) and with block ranges
				// (refills inside skipped blocks, ranges ending before / beyond the last block)
				B := int(recs[ri].Cfg.BlockSize)
				nb := (recs[ri].Size + B - 1) / B
				if recs[ri].Cfg.Headerless {
					continue
				}
				variants := [][3]int{{0, 0, 70001}, {2, 0, 0}, {max(2, nb/2), nb, 0}, {nb, nb + 2, 0}, {0, max(2, nb-1), 0}, {3, max(4, nb-1), 50000}}
				for vi, v := range variants {
					if !run.Thorough() && (vi+ri+int(j))%2 == 1 && vi > 1 {
						continue
					}
					vb := &fiCase{R: recs[ri], Side: "source", K: 0, Mode: "transient", Jobs: j, From: v[0], To: v[1], SrcN: v[2]}
					vo := runSourceCase(vb)
					if vo.kind != "" {
						run.Count("recipe_failed_fault_free", 1)
						run.Violate("C08 "+vo.kind+" side=source mode=none", fmt.Sprintf("[%s from=%d to=%d chunk=%d] %s", recs[ri].Name, v[0], v[1], v[2], vo.detail), vb)
						continue
					}
					for k := 1; k <= vo.calls; k++ {
						for _, m := range []string{"transient", "sticky", "withdata"} {
							cases = append(cases, &fiCase{R: recs[ri], Side: "source", K: k, Mode: m, Jobs: j, From: v[0], To: v[1], SrcN: v[2]})
						}
					}
				}
			}
		}
	}
	core.ParallelDo(len(cases), 0, func(i int) { check(cases[i]) })
	run.SetExhaustive(true)
	run.SetExtra("exhaustive_over", "fault index k = 1..N for every listed (recipe, jobs, mode)")
	for i := 0; i < 6; i++ {
		run.Sample(cases[(i*7919+1)%len(cases)])
	}
}

func init() { register("C08", "fault_enumeration", c08) }
