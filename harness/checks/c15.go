package checks

import (
	"bytes"
	"fmt"
	"strings"

	"github.com/flanglet/kanzi-go/v2/entropy"
	"github.com/flanglet/kanzi-go/v2/transform"

	"verifharness/core"
	"verifharness/gen"
	"verifharness/kz"
)

// C15: codec names are case-insensitive, canonical and consistent end to end.

type nameCase struct {
	T        string `json:"t"` // spelling variant of the transform chain
	E        string `json:"e"` // spelling variant of the entropy codec
	Shape    string `json:"shape"`
	Size     int    `json:"size"`
	Seed     int64  `json:"seed"`
	Headless bool   `json:"headerless"`
}

func spellings(s string) []string {
	lower := strings.ToLower(s)
	title := ""
	alt := ""
	up := true
	for i, c := range lower {
		ch := string(c)
		if up && c >= 'a' && c <= 'z' {
			title += strings.ToUpper(ch)
		} else {
			title += ch
		}
		up = c == '+'
		if i%2 == 1 {
			alt += strings.ToUpper(ch)
		} else {
			alt += ch
		}
	}
	return []string{lower, title, alt}
}

func canonicalChain(s string) string {
	var parts []string
	for _, p := range strings.Split(strings.ToUpper(s), "+") {
		if p != "NONE" {
			parts = append(parts, p)
		}
	}
	if len(parts) == 0 {
		return "NONE"
	}
	return strings.Join(parts, "+")
}

func runNameCase(c *nameCase) (kind, detail string) {
	data := gen.Make(c.Shape, c.Size, c.Seed)
	cfgV := kz.Cfg{Transform: c.T, Entropy: c.E, BlockSize: 65536, Jobs: 2, Checksum: 32, Headerless: c.Headless}
	cfgC := cfgV
	// the canonical spelling: upper case, NONE fillers removed from the chain
	cfgC.Transform, cfgC.Entropy = canonicalChain(c.T), strings.ToUpper(c.E)
	sv, st, err := kz.Compress(data, cfgV, nil)
	if err != nil {
		if st == kz.StageNew {
			return "variant-rejected", fmt.Sprintf("NewWriter rejects spelling %q/%q: %v", c.T, c.E, err)
		}
		return "variant-compress-error", err.Error()
	}
	sc, _, err := kz.Compress(data, cfgC, nil)
	if err != nil {
		return "canonical-compress-error", err.Error() // C01's business; reported there
	}
	if !bytes.Equal(sv, sc) {
		k := 0
		for k < len(sv) && k < len(sc) && sv[k] == sc[k] {
			k++
		}
		return "stream-differs", fmt.Sprintf("spelling %q/%q gives a stream of %d bytes, canonical %d bytes, first difference at byte %d", c.T, c.E, len(sv), len(sc), k)
	}
	var hc *kz.Cfg
	if c.Headless {
		hc = &cfgV // the reader is given the same spelling variant
	}
	rr := kz.Decompress(sv, 3, hc)
	if rr.Err != nil {
		return "variant-undecodable", fmt.Sprintf("stream written with spelling %q/%q does not decode: %v", c.T, c.E, rr.Err)
	}
	if !bytes.Equal(rr.Out, data) {
		return "variant-roundtrip-mismatch", fmt.Sprintf("stream written with spelling %q/%q decodes to different bytes", c.T, c.E)
	}
	return "", ""
}

func c15(run *core.Run, replay string) {
	run.SetRule("(a) name<->type: GetName(GetType(x)) == canonical(x) for every chain of length <= 3 over the 19 transform names and every entropy name, in 4 spellings (exhaustive); " +
		"(b) every spelling variant (lower, Title, aLtErNaTe) of every single codec, of variant-bearing pairs and of random chains <= 8 with NONE fillers must produce the byte-identical stream " +
		"as the upper-case spelling and round-trip through NewReader / NewHeaderlessReader, on data that exercises the variant-specific code; " +
		"non-trivial = spelling differs from the canonical one; distinct = (spelling, shape, size, header mode)")
	if replay != "" {
		var c nameCase
		if err := core.LoadReplay(replay, &c); err != nil {
			run.Violate("C15 replay-unreadable", err.Error(), nil)
			return
		}
		k, d := runNameCase(&c)
		run.Eval(1)
		if k != "" {
			run.Violate("C15 "+k, d, c)
		}
		return
	}
	// (a) exhaustive name <-> type
	names := kz.Transforms
	nChains := 0
	checkChain := func(chain string) {
		canon := canonicalChain(chain)
		for _, sp := range append(spellings(chain), strings.ToUpper(chain)) {
			nChains++
			ty, err := transform.GetType(sp)
			if err != nil {
				run.Violate("C15 gettype-rejects-spelling kind=transform", fmt.Sprintf("GetType(%q): %v", sp, err), map[string]string{"name": sp})
				continue
			}
			if tc, _ := transform.GetType(canon); tc != ty {
				run.Violate("C15 type-differs-from-canonical kind=transform", fmt.Sprintf("GetType(%q) = %#x but GetType(%q) = %#x", sp, ty, canon, tc), map[string]string{"name": sp})
			}
			back, err := transform.GetName(ty)
			if err != nil || back != canon {
				run.Violate("C15 name-type-name kind=transform", fmt.Sprintf("GetName(GetType(%q)) = %q (%v), want %q", sp, back, err, canon), map[string]string{"name": sp})
			}
			if sp != canon {
				run.Nontrivial("nt:" + sp)
			}
		}
	}
	for _, a := range names {
		checkChain(a)
		for _, b := range names {
			checkChain(a + "+" + b)
			for _, c := range names {
				checkChain(a + "+" + b + "+" + c)
			}
		}
	}
	for _, e := range kz.Entropies {
		for _, sp := range append(spellings(e), e) {
			nChains++
			ty, err := entropy.GetType(sp)
			if err != nil {
				run.Violate("C15 gettype-rejects-spelling kind=entropy", fmt.Sprintf("GetType(%q): %v", sp, err), map[string]string{"name": sp})
				continue
			}
			back, err := entropy.GetName(ty)
			if err != nil || back != e {
				run.Violate("C15 name-type-name kind=entropy", fmt.Sprintf("GetName(GetType(%q)) = %q", sp, back), map[string]string{"name": sp})
			}
		}
	}
	run.Eval(nChains)
	run.Count("name_type_checks", nChains)
	run.SetExtra("name_type_exhaustive", "all chains of length 1..3 over 19 names x 4 spellings, 9 entropy names x 4 spellings")

	// (b) end-to-end equality of streams
	var cases []*nameCase
	dataFor := func(t string) []string {
		switch {
		case strings.Contains(t, "TEXT"):
			return []string{"text", "html"}
		case strings.Contains(t, "ROLZ"), strings.Contains(t, "LZ"):
			return []string{"repeatblocks", "text"}
		case strings.Contains(t, "RLT"):
			return []string{"runs", "zeros"}
		case strings.Contains(t, "DNA"), strings.Contains(t, "PACK"):
			return []string{"dna", "smallalpha"}
		case strings.Contains(t, "UTF"):
			return []string{"cyrillic", "cjk"}
		case strings.Contains(t, "EXE"):
			return []string{"elfx86", "pe"}
		case strings.Contains(t, "MM"):
			return []string{"wav", "bmp"}
		}
		return []string{"text", "skewed"}
	}
	addAll := func(t, e string, size int) {
		tss := spellings(t)
		if strings.Contains(t, "NONE+") || strings.Contains(t, "+NONE") {
			tss = append(tss, t) // upper case but with fillers: still not the canonical spelling
		}
		for _, ts := range tss {
			for ei, es := range spellings(e) {
				for si, sh := range dataFor(strings.ToUpper(t)) {
					if !run.Thorough() && (ei+si)%2 == 1 && !(strings.Contains(t, "ROLZX") || strings.Contains(e, "TPAQX")) {
						continue
					}
					cases = append(cases, &nameCase{T: ts, E: es, Shape: sh, Size: size, Seed: run.Seed*13 + int64(len(cases)), Headless: len(cases)%3 == 2})
				}
			}
		}
	}
	for i, t := range kz.Transforms {
		addAll(t, kz.Entropies[i%6], 40000)
	}
	for _, e := range kz.Entropies {
		sz := 40000
		if kz.Heavy(e) {
			sz = 30000
		}
		addAll("NONE", e, sz)
		addAll("TEXT", e, sz) // TEXT and RLT choose a variant from the entropy name
		addAll("RLT", e, sz)
	}
	for _, p := range [][2]string{{"ROLZX", "TPAQX"}, {"ROLZ+ROLZX", "NONE"}, {"TEXT+ROLZX", "TPAQX"}, {"RLT+TEXT", "TPAQX"}, {"TEXT+UTF+ROLZX", "ANS0"}, {"LZX+ROLZX", "HUFFMAN"}, {"DNA+PACK", "RANGE"}, {"RANK+MTFT", "FPAQ"}} {
		addAll(p[0], p[1], 30000)
	}
	nrc := run.Pick(30, 300)
	for i := 0; i < nrc; i++ {
		r := core.Derive(run.Seed, "c15chain", i)
		ln := 2 + r.Intn(7)
		var parts []string
		for k := 0; k < ln; k++ {
			if r.Intn(4) == 0 {
				parts = append(parts, "NONE")
			} else {
				parts = append(parts, kz.Transforms[1+r.Intn(18)])
			}
		}
		e := kz.Entropies[r.Intn(6)]
		if r.Intn(5) == 0 {
			e = "TPAQX"
		}
		addAll(strings.Join(parts, "+"), e, 20000)
	}
	core.ParallelDo(len(cases), 12, func(i int) {
		c := cases[i]
		if core.Hangs() >= 3 {
			return
		}
		g, returned := guarded(func() kd { k, d := runNameCase(c); return kd{k, d, true} })
		if !returned {
			run.Eval(1)
			run.Violate("C15 hang", fmt.Sprintf("%q/%q never returned (60 s, then 180 s)", c.T, c.E), c)
			return
		}
		k, d := g.k, g.d
		run.Eval(1)
		if k == "canonical-compress-error" {
			run.Count("canonical_failed_skipped", 1)
			return
		}
		if c.T != canonicalChain(c.T) || c.E != strings.ToUpper(c.E) {
			run.Nontrivial(fmt.Sprintf("%s|%s|%s|%d|%v", c.T, c.E, c.Shape, c.Size, c.Headless))
		}
		run.Seen("codec_spellings", c.T+"/"+c.E)
		if k != "" {
			// signature names the codec whose variant is at stake, not the spelling instance
			sig := fmt.Sprintf("C15 %s chain=%s entropy=%s", k, canonicalChain(c.T), strings.ToUpper(c.E))
			run.Violate(sig, d, c)
		}
	})
	// (c) the numeric types in the header name the variants that were really used: a stream written by the current tree for
	// a chain must be understood by the REFERENCE decoder (vendored snapshot of the pinned commit), which maps every type of the
	// header to its variant on its own, and the other way round - for every ordered pair of transforms and every triple over
	// the families whose variant is selected through the shared parameter map (lz, sbrt, pack/dna, rolz, text)
	type vcase struct {
		T, E, Shape string
		Seed        int64
	}
	var vcs []vcase
	for i, a := range kz.Transforms[1:] {
		for j, b := range kz.Transforms[1:] {
			vcs = append(vcs, vcase{a + "+" + b, []string{"NONE", "FPAQ", "HUFFMAN"}[(i+j)%3], []string{"text", "dna", "repeatblocks"}[(i*2+j)%3], run.Seed + int64(i*19+j)})
		}
	}
	fam := []string{"LZ", "LZX", "LZP", "RANK", "MTFT", "DNA", "PACK", "ROLZ", "ROLZX", "TEXT", "SRT", "RLT"}
	for i, a := range fam {
		for j, b := range fam {
			for k, c := range fam {
				if !run.Thorough() && (i+j+k)%3 != 0 && !(a == "RANK" || a == "MTFT" || b == "RANK" || b == "MTFT") {
					continue
				}
				vcs = append(vcs, vcase{a + "+" + b + "+" + c, []string{"NONE", "ANS0", "FPAQ"}[(i+j+k)%3], []string{"dna", "text", "html"}[(i+j*2+k)%3], run.Seed*3 + int64(i*144+j*12+k)})
			}
		}
	}
	core.ParallelDo(len(vcs), 12, func(i int) {
		vc := vcs[i]
		data := gen.Make(vc.Shape, 12000+i%5000, vc.Seed)
		cf := kz.Cfg{Transform: vc.T, Entropy: vc.E, BlockSize: 8192, Jobs: uint(1 + i%2), Checksum: 32}
		if i%4 == 3 {
			// the skipBlocks option: incompressible blocks are stored as they are, the following ones must still be coded with the
			// codecs the header names
			cf.SkipBlocks = true
			cf.BlockSize = 1024
			data = append(gen.Make("random", 3000, vc.Seed), data...)
		}
		run.Eval(1)
		refStream, rerr := refCompress(data, cf)
		if rerr != nil {
			run.Count("variant_reference_failed_skipped", 1)
			return
		}
		if back, err := refDecompress(refStream, 1, nil); err != nil || !bytes.Equal(back, data) {
			run.Count("variant_reference_failed_skipped", 1)
			return
		}
		curStream, _, cerr := kz.Compress(data, cf, nil)
		if cerr != nil {
			run.Violate(fmt.Sprintf("C15 variant-compress-error chain=%s entropy=%s", vc.T, vc.E), fmt.Sprintf("%s/%s on %s: %v (the reference compresses it)", vc.T, vc.E, vc.Shape, cerr), vc)
			return
		}
		run.Nontrivial("variant|" + vc.T + "|" + vc.E + "|" + vc.Shape)
		run.Count("variant_cross_decodes", 1)
		if back, err := refDecompress(curStream, 1, nil); err != nil || !bytes.Equal(back, data) {
			run.Violate(fmt.Sprintf("C15 header-types-do-not-name-the-variants-used chain=%s entropy=%s", vc.T, vc.E),
				fmt.Sprintf("the stream the current tree writes for %s/%s (%s, %d bytes) is not decoded to the original by the reference decoder (err=%v): some stage was encoded with another variant than its header type says", vc.T, vc.E, vc.Shape, len(data), err), vc)
			return
		}
		rr := kz.Decompress(refStream, 1, nil)
		if rr.Err != nil || !bytes.Equal(rr.Out, data) {
			run.Violate(fmt.Sprintf("C15 header-types-map-to-other-variants chain=%s entropy=%s", vc.T, vc.E),
				fmt.Sprintf("the reference stream for %s/%s (%s, %d bytes) is not decoded to the original by the current tree (err=%v)", vc.T, vc.E, vc.Shape, len(data), rr.Err), vc)
		}
	})
	for i := 0; i < 6; i++ {
		run.Sample(cases[(i*7919+1)%len(cases)])
	}
}

func init() { register("C15", "exploration", c15) }
