package checks

import (
	"bytes"
	"fmt"
	"time"

	kio "github.com/flanglet/kanzi-go/v2/io"

	"verifharness/container"
	"verifharness/core"
	"verifharness/kz"
)

// C11: block-range decoding returns exactly the requested slice; skipped blocks are not decoded.

type rangeCase struct {
	R       recipe `json:"recipe"`
	From    int    `json:"from"` // 0 = not given
	To      int    `json:"to"`   // 0 = not given
	Jobs    uint   `json:"jobs"`
	Corrupt bool   `json:"corrupt_skipped"` // damage the payload of every block outside the range
	Chunk   int    `json:"source_chunk"`    // 0 = the source hands over whatever is asked; n > 0 = at most n bytes per call (the buffer is refilled inside skipped blocks)
}

func runRangeCase(c *rangeCase) (kind, detail string, ok bool) {
	data, stream, err := c.R.build()
	if err != nil {
		return "", "", false
	}
	B := int(c.R.Cfg.BlockSize)
	nb := (len(data) + B - 1) / B
	from, to := c.From, c.To
	lo, hi := 0, len(data)
	if from > 0 {
		lo = len(data)
		if from-1 <= len(data)/B+1 {
			lo = min((from-1)*B, len(data))
		}
	}
	if to > 0 && to-1 <= len(data)/B+1 { // beyond that the range is open-ended ((to-1)*B would overflow for huge values)
		hi = min((to-1)*B, len(data))
	}
	if hi < lo {
		hi = lo
	}
	want := data[lo:hi]
	if c.Corrupt {
		ps, perr := container.Parse(stream)
		if perr != nil || len(ps.Blocks) != nb {
			return "harness", fmt.Sprintf("container parse: %v", perr), true
		}
		stream = append([]byte(nil), stream...)
		for _, b := range ps.Blocks {
			in := (from == 0 || b.Index >= from) && (to == 0 || b.Index < to)
			if in {
				continue
			}
			// flip bits inside the entropy-coded data and the stored checksum (length prefix intact)
			for k := 0; k < 6 && b.DataLen > 8; k++ {
				bit := b.DataOff + (k*7919+3)%b.DataLen
				stream[bit>>3] ^= 1 << uint(7-bit&7)
			}
			if c.R.Cfg.Checksum > 0 {
				bit := b.CkOff + 5
				stream[bit>>3] ^= 1 << uint(7-bit&7)
			}
		}
	}
	ctx := map[string]any{"jobs": c.Jobs}
	if from > 0 {
		ctx["from"] = from
	}
	if to > 0 {
		ctx["to"] = to
	}
	var rr kz.ReadResult
	func() {
		defer func() {
			if x := recover(); x != nil {
				rr.Err = &kz.ErrPanic{Val: x}
			}
		}()
		src := &kz.Source{Data: stream}
		if c.Chunk > 0 {
			ch := c.Chunk
			src.Chunk = func(int) int { return ch }
		}
		r, err := kio.NewReaderWithCtx(src, ctx)
		if err != nil {
			rr.Err = err
			return
		}
		rr = kz.ReadAll(r, []int{3000, 70000}, 0, len(data)+1<<20)
		r.Close()
	}()
	if rr.Err != nil {
		return "error", fmt.Sprintf("range [%d,%d) of %d blocks, jobs %d: %v", from, to, nb, c.Jobs, rr.Err), true
	}
	if !bytes.Equal(rr.Out, want) {
		k := 0
		for k < len(want) && k < len(rr.Out) && rr.Out[k] == want[k] {
			k++
		}
		return "wrong-slice", fmt.Sprintf("range [%d,%d) of %d blocks (B=%d), jobs %d: got %d bytes, want %d (orig[%d:%d]); first difference at %d", from, to, nb, B, c.Jobs, len(rr.Out), len(want), lo, hi, k), true
	}
	return "", "", true
}

func c11(run *core.Run, replay string) {
	run.SetRule("for streams of 1..12 blocks (partial last block, with/without size hint, block sizes 1024/4096) EVERY range 1 <= from <= to <= nb+3, plus from-only and to-only, is decoded with decoder jobs {1,2,3,4,8,64}; " +
		"the source delivers the stream at once or in short reads of 7..1021 bytes (refills inside skipped blocks), three streams exceed the 256 KiB input buffer several times; " +
		"in half of the cases the payload and stored checksum of every block outside the range are corrupted (length prefix intact) so that decoding a skipped block would be noticed; " +
		"oracle: bytes == orig[(from-1)*B : min((to-1)*B, len)] and no error; non-trivial = range skips at least one block; distinct = (recipe, from, to, jobs, corrupt)")
	if replay != "" {
		var c rangeCase
		if err := core.LoadReplay(replay, &c); err != nil {
			run.Violate("C11 replay-unreadable", err.Error(), nil)
			return
		}
		k, d, _ := runRangeCase(&c)
		run.Eval(1)
		if k != "" {
			run.Violate("C11 "+k, d, c)
		}
		return
	}
	S := run.Seed
	var recs []recipe
	nbs := []int{1, 2, 3, 4, 5, 7, 8, 9, 12}
	if run.Thorough() {
		nbs = []int{1, 2, 3, 4, 5, 6, 7, 8, 9, 10, 11, 12, 16, 17, 33}
	}
	for i, nb := range nbs {
		B := uint(1024)
		if i%3 == 2 {
			B = 4096
		}
		size := nb*int(B) - []int{0, 1, int(B) / 2, int(B) - 1}[i%4]
		cf := []kz.Cfg{cfg("NONE", "NONE", B, 2, 32), cfg("LZ", "HUFFMAN", B, 4, 64), cfg("BWT", "ANS0", B, 3, 32), cfg("TEXT", "FPAQ", B, 1, 0), cfg("RLT", "RANGE", B, 8, 32)}[i%5]
		if i%2 == 1 {
			cf.Hint = -1 // exact hint: limits the reader's batch width
		}
		recs = append(recs, recipe{fmt.Sprintf("%dblk-%s", nb, cf.Transform), cf, []string{"text", "html", "runs"}[i%3], size, S + int64(i)})
	}
	var cases []*rangeCase
	jobsL := []uint{1, 2, 3, 4, 8, 64}
	for ri := range recs {
		B := int(recs[ri].Cfg.BlockSize)
		nb := (recs[ri].Size + B - 1) / B
		for from := 1; from <= nb+3; from++ {
			for to := from; to <= nb+3; to++ {
				for ji, j := range jobsL {
					_ = ji
					cases = append(cases, &rangeCase{recs[ri], from, to, j, (from+to+ji)%2 == 0, []int{0, 0, 1021, 0, 13, 250}[(from*3+to+ji)%6]})
				}
			}
		}
		for k := 1; k <= nb+2; k++ {
			cases = append(cases, &rangeCase{recs[ri], k, 0, jobsL[k%6], k%2 == 0, []int{0, 7, 1000}[k%3]})
			cases = append(cases, &rangeCase{recs[ri], 0, k, jobsL[(k+1)%6], k%2 == 1, []int{0, 1000, 7}[k%3]})
		}
	}
	// streams longer than the saturating block-count hint (63): boundary-focused ranges
	for i, nb := range []int{64, 70, 130} {
		for _, hinted := range []bool{false, true} {
			cf := cfg([]string{"NONE", "LZ", "RLT"}[i%3], []string{"NONE", "HUFFMAN", "ANS0"}[i%3], 1024, 3, 32)
			if hinted {
				cf.Hint = -1
			}
			rc := recipe{fmt.Sprintf("%dblk-long-hint=%v", nb, hinted), cf, "text", nb*1024 - 300, S + int64(100+i)}
			marks := []int{1, 2, 3, 62, 63, 64, 65, 66, 70, nb - 1, nb, nb + 1, nb + 3}
			for _, from := range marks {
				for _, to := range marks {
					if to < from || from < 1 {
						continue
					}
					for ji, j := range []uint{1, 2, 4, 64} {
						if !run.Thorough() && (from+to+ji)%2 == 1 {
							continue
						}
						cases = append(cases, &rangeCase{rc, from, to, j, (from+to)%3 == 0, []int{0, 509, 0}[(from+ji)%3]})
					}
				}
				cases = append(cases, &rangeCase{rc, from, 0, uint(1 + from%4), false, 0}, &rangeCase{rc, 0, from, uint(1 + from%3), false, 0})
			}
		}
	}
	// open-ended ranges written as a huge "to" (the command line accepts any int): values at and beyond the 32-bit limits
	for ri := range recs {
		B := int(recs[ri].Cfg.BlockSize)
		nb := (recs[ri].Size + B - 1) / B
		for ti, to := range []int{1<<31 - 1, 1 << 31, 1<<32 - 1, 1 << 32, 1<<32 + 1, 1<<40 + 5, int(^uint(0) >> 1), 1<<31 + 2, 65536, 1 << 16 << 16 >> 1} {
			for from := 1; from <= nb+1; from++ {
				if !run.Thorough() && (ri+ti+from)%2 == 1 {
					continue
				}
				cases = append(cases, &rangeCase{recs[ri], from, to, jobsL[(from+ti)%6], false, []int{0, 1021}[(from+ti)%2]})
			}
		}
	}
	// streams whose compressed size exceeds the 256 KiB input buffer several times: the buffer is refilled in the middle of
	// skipped blocks and of blocks inside the range (every range; unaligned compressed block lengths)
	for i, cf := range []kz.Cfg{cfg("NONE", "NONE", 65536, 2, 32), cfg("LZ", "ANS0", 131072, 3, 0), cfg("NONE", "HUFFMAN", 65536, 4, 64)} {
		nb := []int{14, 9, 12}[i]
		rc := recipe{fmt.Sprintf("%dblk-large-%s", nb, cf.Entropy), cf, []string{"random", "random", "skewed"}[i], nb*int(cf.BlockSize) - 1000*i - 7, S + int64(200+i)}
		for from := 1; from <= nb+1; from++ {
			for to := from; to <= nb+2; to++ {
				if !run.Thorough() && (from+to+i)%3 != 0 && to != nb+2 {
					continue
				}
				cases = append(cases, &rangeCase{rc, from, to, jobsL[(from+to)%6], false, []int{0, 0, 100000}[(from+to)%3]})
			}
		}
	}
	core.ParallelDo(len(cases), 0, func(i int) {
		c := cases[i]
		if core.Hangs() >= 3 {
			return // leaked spinning tasks: stop early, the violations are already recorded
		}
		var k, d string
		var ok bool
		if !core.Guard(60*time.Second, func() { k, d, ok = runRangeCase(c) }) {
			// confirm with a second, longer attempt before calling it a hang
			if !core.Guard(180*time.Second, func() { k, d, ok = runRangeCase(c) }) {
				core.NoteHang()
				run.Eval(1)
				run.Violate("C11 hang", fmt.Sprintf("range [%d,%d) jobs %d on %s: Read did not return within 60 s and then 180 s (a decode of a few KiB)", c.From, c.To, c.Jobs, c.R.Name), c)
				return
			}
		}
		if !ok {
			run.Count("recipe_build_failed", 1)
			return
		}
		run.Eval(1)
		B := int(c.R.Cfg.BlockSize)
		nb := (c.R.Size + B - 1) / B
		if c.From > 1 || (c.To > 0 && c.To <= nb) {
			run.Nontrivial(fmt.Sprintf("%s|%d|%d|%d|%v|%d", c.R.Name, c.From, c.To, c.Jobs, c.Corrupt, c.Chunk))
			if c.Chunk > 0 {
				run.Count("cases_with_short_reads_from_the_source", 1)
			}
		}
		if c.Corrupt {
			run.Count("cases_with_corrupted_skipped_blocks", 1)
		}
		if k != "" {
			run.Violate(fmt.Sprintf("C11 %s corrupt-skipped=%v", k, c.Corrupt), d, c)
		}
	})
	run.SetExtra("ranges_enumerated", "all 1<=from<=to<=nb+3 x 6 job counts for every stream (exhaustive over ranges for the listed streams)")
	for i := 0; i < 5; i++ {
		run.Sample(cases[(i*7919+1)%len(cases)])
	}
}

func init() { register("C11", "exploration", c11) }
