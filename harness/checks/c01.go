package checks

import (
	"bytes"
	"encoding/json"
	"fmt"
	"regexp"
	"strings"
	"sync"
	"time"

	kio "github.com/flanglet/kanzi-go/v2/io"

	"verifharness/container"
	"verifharness/core"
	"verifharness/gen"
	"verifharness/kz"
)

// C01: lossless round trip through the stream API for every accepted configuration.

type rtCase struct {
	Cfg      kz.Cfg `json:"cfg"`
	Shape    string `json:"shape"`
	Size     int    `json:"size"`
	Seed     int64  `json:"seed"`
	HintMode string `json:"hint_mode"` // absent | exact | smaller1 | tiny | larger | huge
	DecJobs  uint   `json:"dec_jobs"`
	WriteSz  []int  `json:"write_sizes,omitempty"`
	ReadSz   []int  `json:"read_sizes,omitempty"`
	Target   string `json:"target,omitempty"` // transform whose application makes the case non-trivial ("" = any)
}

type rtResult struct {
	Kind      string   `json:"kind"` // "" ok | rejected | compress-error | decompress-error | mismatch | container
	Stage     string   `json:"stage,omitempty"`
	Detail    string   `json:"detail,omitempty"`
	Sites     []string `json:"sites,omitempty"` // recovered panic sites seen through the H2 hook
	Blocks    int      `json:"blocks"`
	Applied   []string `json:"applied,omitempty"` // transforms applied in at least one block
	CopyBlks  int      `json:"copy_blocks"`
	StreamLen int      `json:"stream_len"`
}

var recMu sync.Mutex
var recSites []string

func installRecoverMonitor() {
	kio.SetVerifRecoverHook(func(side int, blockID int32, r any, stack []byte) {
		site := core.PanicSite(stack)
		recMu.Lock()
		if len(recSites) < 64 {
			recSites = append(recSites, site)
		}
		recMu.Unlock()
	})
}

func takeRecoverSites() []string {
	recMu.Lock()
	defer recMu.Unlock()
	s := recSites
	recSites = nil
	return s
}

func hintFor(mode string, size int, bs uint) int64 {
	switch mode {
	case "exact":
		return int64(size)
	case "smaller1":
		if size > int(bs) {
			return int64(size - int(bs))
		}
		return int64(max(size/2, 1))
	case "tiny":
		return 100
	case "larger":
		return int64(size)*3 + 12345
	case "huge":
		return 1 << 50
	case "negative":
		return -1
	case "negbig":
		return -(1 << 40)
	}
	return 0
}

// appliedTransforms derives from the parsed container which stages ran in at least one block
func appliedTransforms(s *container.Stream, chain string) (applied []string, copies int) {
	var names []string
	for _, n := range strings.Split(strings.ToUpper(chain), "+") {
		if n != "NONE" {
			names = append(names, n)
		}
	}
	seen := map[string]bool{}
	for _, b := range s.Blocks {
		if b.Copy {
			copies++
			continue
		}
		for i, n := range names {
			if b.SkipFlags&(1<<uint(7-i)) == 0 && !seen[n] {
				seen[n] = true
				applied = append(applied, n)
			}
		}
	}
	return
}

var numRe = regexp.MustCompile(`\b[0-9a-fA-F]*[0-9][0-9a-fA-F]*\b`)

func errClass(err error) string {
	if err == nil {
		return ""
	}
	s := numRe.ReplaceAllString(err.Error(), "N")
	return core.Trunc(s, 60)
}

func runRtCase(c *rtCase) (res rtResult) {
	data := gen.Make(c.Shape, c.Size, c.Seed)
	cfg := c.Cfg
	cfg.Hint = hintFor(c.HintMode, c.Size, cfg.BlockSize)
	takeRecoverSites()
	stream, st, err := kz.Compress(data, cfg, c.WriteSz)
	res.StreamLen = len(stream)
	if err != nil {
		if st == kz.StageNew {
			res.Kind, res.Detail = "rejected", err.Error()
			return
		}
		res.Kind, res.Detail, res.Sites = "compress-error", err.Error(), takeRecoverSites()
		res.Stage = map[kz.Stage]string{kz.StageWrite: "Write", kz.StageClose: "Close"}[st]
		return
	}
	// independent second opinion on the container structure
	var ps *container.Stream
	var perr error
	if cfg.Headerless {
		ps, perr = container.ParseHeaderless(stream, int(cfg.Checksum))
	} else {
		ps, perr = container.Parse(stream)
	}
	if perr != nil {
		res.Kind, res.Detail = "container", "independent parser rejects the produced stream: "+perr.Error()
		return
	}
	if (ps.EndBits+7)/8 != len(stream) {
		res.Kind, res.Detail = "container", fmt.Sprintf("stream has %d bytes but the block chain ends at byte %d", len(stream), (ps.EndBits+7)/8)
		return
	}
	res.Blocks = len(ps.Blocks)
	res.Applied, res.CopyBlks = appliedTransforms(ps, cfg.Transform)
	wantBlocks := (len(data) + int(cfg.BlockSize) - 1) / int(cfg.BlockSize)
	if res.Blocks != wantBlocks {
		res.Kind, res.Detail = "container", fmt.Sprintf("stream holds %d blocks, %d bytes at block size %d need %d", res.Blocks, len(data), cfg.BlockSize, wantBlocks)
		return
	}
	if !cfg.Headerless {
		h := ps.Hdr
		if h.BlockSize != int(cfg.BlockSize) || h.CkSize != int(cfg.Checksum) {
			res.Kind, res.Detail = "container", fmt.Sprintf("header says block size %d checksum %d", h.BlockSize, h.CkSize)
			return
		}
	}
	src := &kz.Source{Data: stream}
	var rr kz.ReadResult
	func() {
		defer func() {
			if x := recover(); x != nil {
				rr.Err = &kz.ErrPanic{Val: x}
			}
		}()
		var hc *kz.Cfg
		if cfg.Headerless {
			hc = &cfg
		}
		var r *kio.Reader
		var err error
		if cfg.Headerless && c.Seed%2 == 0 {
			// the parameter-map API without an explicit stream version (the documented default is the current one)
			r, err = kio.NewReaderWithCtx(src, map[string]any{"jobs": c.DecJobs, "headerless": true, "transform": cfg.Transform, "entropy": cfg.Entropy,
				"blockSize": cfg.BlockSize, "checksum": cfg.Checksum, "outputSize": int64(0)})
		} else {
			r, err = kz.NewReader(src, c.DecJobs, hc)
		}
		if err != nil {
			rr.Err = err
			return
		}
		rr = kz.ReadAll(r, c.ReadSz, 0, len(data)+1<<20)
		if e := r.Close(); e != nil && rr.Err == nil {
			rr.Err = e
		}
	}()
	if rr.Err != nil {
		res.Kind, res.Detail, res.Sites = "decompress-error", rr.Err.Error(), takeRecoverSites()
		return
	}
	if !rr.EOF {
		res.Kind, res.Detail = "decompress-error", "reader stopped without io.EOF"
		return
	}
	if !bytes.Equal(rr.Out, data) {
		k := 0
		for k < len(data) && k < len(rr.Out) && rr.Out[k] == data[k] {
			k++
		}
		res.Kind, res.Detail = "mismatch", fmt.Sprintf("read back %d bytes, wrote %d; first difference at offset %d; no error reported", len(rr.Out), len(data), k)
	}
	return
}

func init() {
	core.RegisterChild("c01", func(raw json.RawMessage) any {
		var c rtCase
		if err := json.Unmarshal(raw, &c); err != nil {
			return rtResult{Kind: "harness", Detail: err.Error()}
		}
		installRecoverMonitor()
		installNormalizeMonitor()
		r := runRtCase(&c)
		// fold in-situ normalize violations into the result
		nfSituMu.Lock()
		if len(nfSituViol) > 0 {
			v := nfSituViol[0]
			nfSituViol = nil
			nfSituMu.Unlock()
			if r.Kind == "" {
				b, _ := json.Marshal(v.Case)
				r.Kind, r.Detail = "insitu-normalize", v.Kind+": "+v.Detail+" "+string(b)
			}
		} else {
			nfSituMu.Unlock()
		}
		return r
	})
	register("C01", "exploration", c01)
}

func rtSig(c *rtCase, r *rtResult) string {
	site := ""
	if len(r.Sites) > 0 {
		site = " site=" + r.Sites[0]
	}
	switch r.Kind {
	case "compress-error":
		if site != "" {
			return fmt.Sprintf("C01 compress-error stage=%s%s", r.Stage, site)
		}
		return fmt.Sprintf("C01 compress-error stage=%s msg=%s", r.Stage, errClass(fmt.Errorf("%s", r.Detail)))
	case "decompress-error":
		if site != "" {
			return "C01 decompress-error" + site
		}
		return fmt.Sprintf("C01 decompress-error msg=%s", errClass(fmt.Errorf("%s", r.Detail)))
	case "mismatch", "container":
		jobs := "1"
		if c.Cfg.Jobs > 1 {
			jobs = ">1"
		}
		return fmt.Sprintf("C01 %s hint=%s jobs%s chain=%s/%s", r.Kind, c.HintMode, jobs, strings.ToUpper(c.Cfg.Transform), strings.ToUpper(c.Cfg.Entropy))
	}
	return "C01 " + r.Kind
}

func c01(run *core.Run, replay string) {
	run.SetRule("data of a generated shape is written through io.NewWriter (config: chain, entropy, block size, jobs, checksum, size-hint mode, header/headerless; Write partition varied), closed, " +
		"the stream is parsed by the independent container parser (block count, end marker, header fields) and read back with an independently chosen decoder job count until io.EOF; " +
		"non-trivial = multi-byte input, compression and decompression ran, and the targeted transform was really applied (its skip flag is clear in some block) - for untargeted cases any block that is not a raw copy; " +
		"distinct = (config, shape, size, hint mode, decoder jobs)")
	if replay != "" {
		var c rtCase
		if err := core.LoadReplay(replay, &c); err != nil {
			run.Violate("C01 replay-unreadable", err.Error(), nil)
			return
		}
		installRecoverMonitor()
		r := runRtCase(&c)
		run.Eval(1)
		fmt.Printf("replay result: %+v\n", r)
		if r.Kind != "" && r.Kind != "rejected" {
			run.Violate(rtSig(&c, &r), r.Detail, c)
		}
		return
	}
	S := run.Seed
	var tcs []*rtCase
	add := func(c rtCase) {
		cc := c
		if kz.Heavy(cc.Cfg.Entropy) {
			// the context-mixing coders allocate their (large) model for every block: bound size and block count
			if cc.Size > 300000 {
				cc.Size = 300000 - cc.Size%1000
			}
			if lim := 5*int(cc.Cfg.BlockSize) + 7; cc.Size > lim {
				cc.Size = lim
			}
		}
		tcs = append(tcs, &cc)
	}
	lightE := []string{"NONE", "HUFFMAN", "ANS0", "ANS1", "RANGE", "FPAQ"}
	allE := kz.Entropies
	bsizes := []uint{1024, 4096, 65536, 1040, 16384}
	jobsL := []uint{1, 2, 3, 4, 8, 1, 16, 1, 7}
	decJ := []uint{1, 2, 3, 4, 8, 64}
	cks := []uint{0, 32, 64}
	hints := []string{"absent", "exact", "absent", "larger", "huge", "exact", "absent", "smaller1", "tiny", "negative", "negbig"}
	wparts := [][]int{nil, {1000}, {1, 7, 4093, 13}, {4096}, {65536, 3}, nil}
	rparts := [][]int{nil, {1}, {4095, 4097}, {100000}, {7, 0, 300}, nil}
	sizeFor := func(i int, bs uint) int {
		// sizes relative to the block size: sub-block, exact multiples, partial last block, several batches
		m := []int{1, 15, 16, 17, 100, int(bs) - 1, int(bs), int(bs) + 1, 2*int(bs) + 5, 3 * int(bs), 5*int(bs) + int(bs)/2, 9*int(bs) + 1, 17 * int(bs), 33*int(bs) + 7}
		return m[i%len(m)]
	}
	n := 0
	mk := func(t, e, shape string, size int, target string) {
		n++
		bs := bsizes[n%len(bsizes)]
		if size < 0 {
			size = sizeFor(n, bs)
		}
		if size > 600000 {
			size = 600000
		}
		hl := n%11 == 0
		add(rtCase{Cfg: kz.Cfg{Transform: t, Entropy: e, BlockSize: bs, Jobs: jobsL[n%len(jobsL)], Checksum: cks[n%3], Headerless: hl},
			Shape: shape, Size: size, Seed: S*1009 + int64(n), HintMode: hints[n%len(hints)], DecJobs: decJ[n%len(decJ)],
			WriteSz: wparts[n%len(wparts)], ReadSz: rparts[(n/2)%len(rparts)], Target: target})
	}
	// 1. every transform x every shape (entropy cycles)
	for ti, t := range kz.Transforms {
		for hi, sh := range gen.Shapes {
			e := lightE[(ti+hi)%len(lightE)]
			if (ti+hi)%13 == 0 {
				e = allE[(ti+hi)%len(allE)]
			}
			mk(t, e, sh, -1, t)
		}
	}
	// 2. every transform x the absolute size ladder
	for ti, t := range kz.Transforms {
		for si, sz := range gen.Sizes {
			mk(t, lightE[(ti+si)%len(lightE)], gen.Shapes[(ti*7+si)%len(gen.Shapes)], sz, t)
		}
	}
	// 3. every entropy codec x shapes and x size ladder, transform NONE
	for ei, e := range allE {
		for _, sh := range gen.Shapes {
			mk("NONE", e, sh, -1, "")
		}
		for si, sz := range gen.Sizes {
			mk("NONE", e, gen.Shapes[(ei*5+si)%len(gen.Shapes)], sz, "")
		}
	}
	// 4. CLI level chains x shapes
	for li, lc := range kz.LevelChains {
		for hi, sh := range gen.Shapes {
			if !run.Thorough() && kz.Heavy(lc[1]) && hi%2 == 1 {
				continue
			}
			mk(lc[0], lc[1], sh, []int{3000, 70000, 200000, 20000}[(li+hi)%4], "")
		}
	}
	// 5. random chains of 3..8 stages, with and without NONE fillers
	nch := run.Pick(40, 400)
	for i := 0; i < nch; i++ {
		r := core.Derive(S, "c01chain", i)
		ln := 3 + r.Intn(6)
		var parts []string
		for k := 0; k < ln; k++ {
			if i%2 == 1 && r.Intn(4) == 0 {
				parts = append(parts, "NONE")
			} else {
				parts = append(parts, kz.Transforms[1+r.Intn(len(kz.Transforms)-1)])
			}
		}
		for k := 0; k < 5; k++ {
			mk(strings.Join(parts, "+"), allE[r.Intn(len(allE))], gen.Shapes[r.Intn(len(gen.Shapes))], []int{5000, 40000, 100000}[r.Intn(3)], "")
		}
	}
	// 6. size-hint x job-count matrix (the task count depends on both)
	for ci, cf := range [][2]string{{"NONE", "NONE"}, {"LZ", "HUFFMAN"}, {"BWT", "ANS0"}, {"TEXT+RLT", "FPAQ"}, {"ROLZ", "NONE"}, {"RLT+ZRLT", "RANGE"}} {
		for _, j := range []uint{2, 3, 4, 7, 8, 16, 64} {
			for hi, hm := range []string{"exact", "smaller1", "tiny", "larger", "huge"} {
				bs := uint(1024)
				if (ci+hi)%2 == 0 {
					bs = 4096
				}
				nb := []int{5, 9, 20, 70, 130}[(ci+hi+int(j))%5]
				add(rtCase{Cfg: kz.Cfg{Transform: cf[0], Entropy: cf[1], BlockSize: bs, Jobs: j, Checksum: cks[(ci+hi)%3]},
					Shape: []string{"text", "html", "runs"}[(ci+hi)%3], Size: nb*int(bs) + 100, Seed: S + int64(ci*100+hi), HintMode: hm, DecJobs: decJ[(ci+hi+int(j))%len(decJ)]})
			}
		}
	}
	// 6b. block sizes above the 256 KiB default buffer with hints smaller than one block / than the data
	for bi, bs := range []uint{512 << 10, 1 << 20, 4 << 20} {
		for hi, hm := range []string{"tiny", "smaller1", "exact", "larger", "absent"} {
			for si, size := range []int{300000, 400000, int(bs) - 1, int(bs) + int(bs)/2} {
				if !run.Thorough() && (bi+hi+si)%2 == 1 && hm != "tiny" && hm != "smaller1" {
					continue
				}
				ws := [][]int{nil, {100000}, {7, 70001}}[(bi+hi+si)%3]
				add(rtCase{Cfg: kz.Cfg{Transform: []string{"NONE", "LZ", "RLT"}[(bi+si)%3], Entropy: []string{"NONE", "HUFFMAN"}[hi%2], BlockSize: bs, Jobs: []uint{1, 2, 4}[(hi+si)%3], Checksum: cks[(bi+hi)%3]},
					Shape: []string{"text", "random", "html"}[(bi+hi+si)%3], Size: size, Seed: S + int64(bi*50+hi*7+si), HintMode: hm, DecJobs: decJ[(bi+hi+si)%len(decJ)], WriteSz: ws})
			}
		}
	}
	// 6c. several full blocks larger than the default 256 KiB buffers with chains that expand (buffers grown inside the tasks)
	for ci, ch := range []string{"EXE+LZ", "TEXT+UTF+EXE+PACK+MM+ROLZ", "EXE+PACK", "MM+EXE", "EXE+RLT+TEXT+UTF+DNA"} {
		for ji, j := range []uint{1, 3, 4, 8} {
			if !run.Thorough() && (ci+ji)%2 == 1 {
				continue
			}
			bs := []uint{262144, 393216, 524288}[(ci+ji)%3]
			add(rtCase{Cfg: kz.Cfg{Transform: ch, Entropy: []string{"NONE", "HUFFMAN"}[ci%2], BlockSize: bs, Jobs: j, Checksum: 32}, Shape: []string{"elfx86", "text", "pe", "wav", "html"}[ci],
				Size: 4*int(bs) + 777, Seed: S + int64(ci), HintMode: []string{"absent", "exact"}[ji%2], DecJobs: decJ[(ci+ji)%len(decJ)]})
		}
	}
	// 6d. data much shorter than the block size, and a short last block after full ones, at block sizes of 1..16 MiB: every
	// transform on the content it is made for (the two sides see different lengths: real block length vs buffer sized from -b)
	aff := map[string]string{"DNA": "dna", "PACK": "smallalpha", "UTF": "cyrillic", "TEXT": "wordlist", "EXE": "elfx86", "MM": "wav", "RLT": "longruns", "ZRLT": "zeros", "ROLZ": "repeatblocks", "ROLZX": "html", "LZP": "repeatblocks"}
	for ti, t := range kz.Transforms[1:] {
		sh := aff[t]
		if sh == "" {
			sh = []string{"text", "html", "wordlist"}[ti%3]
		}
		for vi, v := range [][2]int{{1 << 22, 1<<20 + 4321}, {1 << 24, 1500000}, {1 << 20, 1<<20 + 1<<19 + 77}} {
			if !run.Thorough() && (ti+vi)%3 == 2 && t != "TEXT" {
				continue
			}
			if (t == "BWT" || t == "BWTS") && vi == 1 {
				continue
			}
			add(rtCase{Cfg: kz.Cfg{Transform: t, Entropy: lightE[(ti+vi)%len(lightE)], BlockSize: uint(v[0]), Jobs: []uint{1, 2}[vi%2], Checksum: cks[(ti+vi)%3]},
				Shape: sh, Size: v[1], Seed: S + int64(ti*3+vi), HintMode: []string{"absent", "exact"}[(ti+vi)%2], DecJobs: decJ[(ti+vi)%3], Target: t})
		}
	}
	// 6e. stacked stages that each add a header (SRT, BWT, ...) at small block sizes: the expansion accumulates from stage to stage
	// while the reader undoes the chain in buffers of block size + padding
	for ci, ch := range []string{"SRT+SRT", "SRT+SRT+SRT", "SRT+SRT+SRT+SRT+SRT+SRT+SRT+SRT", "NONE+SRT+MM+SRT+BWT+BWTS+DNA", "ZRLT+RANK+SRT+SRT+LZP", "SRT+SRT+LZX+DNA+DNA+BWT+MTFT", "SRT+SRT+EXE+LZ+PACK+MTFT+SRT",
		"SRT+RANK+SRT+ROLZ", "BWT+BWT+BWT+BWT+BWT+BWT+BWT+BWT", "BWTS+SRT+BWT+SRT", "SRT+BWT+SRT+BWT+SRT+BWT+SRT+BWT", "MTFT+SRT+RANK+SRT+MTFT+SRT", "SRT+ZRLT+SRT+RLT+SRT", "UTF+SRT+TEXT+SRT+PACK+SRT"} {
		for vi, sh := range []string{"utf8dirty", "sorted", "random", "text", "ramp256", "cjk"} {
			if !run.Thorough() && (ci+vi)%2 == 1 {
				continue
			}
			bs := []uint{1024, 1040, 4096, 2048}[(ci+vi)%4]
			add(rtCase{Cfg: kz.Cfg{Transform: ch, Entropy: allE[(ci+vi)%len(allE)], BlockSize: bs, Jobs: jobsL[(ci+vi)%len(jobsL)], Checksum: cks[(ci+vi)%3], Headerless: (ci+vi)%7 == 0},
				Shape: sh, Size: []int{5207, 20487, 1024, 900, 40000}[(ci+vi)%5], Seed: S + int64(ci*7+vi), HintMode: hints[(ci+vi)%len(hints)], DecJobs: decJ[(ci+vi)%len(decJ)]})
		}
	}
	// 6f. the skipBlocks option: stored (incompressible / already compressed) blocks followed by compressible ones handled by the
	// same task slot, several batches
	for ci, cf2 := range [][2]string{{"LZ", "HUFFMAN"}, {"ROLZX", "NONE"}, {"TEXT+RLT", "TPAQX"}, {"LZX", "ANS0"}, {"BWT+RANK+ZRLT", "FPAQ"}, {"NONE", "RANGE"}} {
		for vi, sh := range []string{"randtext", "magicmix", "repeatblocks"} {
			for ji, j := range []uint{1, 2, 3} {
				if !run.Thorough() && (ci+vi+ji)%2 == 1 {
					continue
				}
				bs := []uint{4096, 16384, 1024}[(ci+vi)%3]
				sz := 12*int(bs) + 100
				if kz.Heavy(cf2[1]) {
					sz = 5*int(bs) + 100
				}
				add(rtCase{Cfg: kz.Cfg{Transform: cf2[0], Entropy: cf2[1], BlockSize: bs, Jobs: j, Checksum: cks[(ci+vi)%3], SkipBlocks: true},
					Shape: sh, Size: sz, Seed: S + int64(ci*9+vi*3+ji), HintMode: "absent", DecJobs: decJ[(ci+vi+ji)%len(decJ)]})
			}
		}
	}
	// 6g. staircase (Fibonacci-like) histograms that defeat code length limiting, chunk totals around the renormalisation scale
	for vi, sz := range []int{2048, 2049, 4096, 18432, 18433, 67585} {
		nq := run.Pick(12, 60)
		if sz < 2100 {
			nq = run.Pick(160, 1500) // tiny cases: many histograms
		}
		for q := 0; q < nq; q++ {
			add(rtCase{Cfg: kz.Cfg{Transform: []string{"NONE", "NONE", "RLT"}[q%3], Entropy: []string{"HUFFMAN", "HUFFMAN", "ANS0", "HUFFMAN"}[(q/3)%4], BlockSize: []uint{65536, 4096, 1 << 20}[(vi+q)%3], Jobs: uint(1 + q%2), Checksum: cks[q%3]},
				Shape: []string{"staircase2", "staircase"}[q%2], Size: sz, Seed: S*41 + int64(vi*100+q), HintMode: "absent", DecJobs: 1})
		}
	}
	// both variants of the text codec on vocabularies that overflow the dictionary, in a block shorter than the block size
	for vi, e := range []string{"NONE", "FPAQ", "HUFFMAN", "ANS1", "RANGE", "FPAQ"} {
		for q := 0; q < 2; q++ {
			add(rtCase{Cfg: kz.Cfg{Transform: []string{"TEXT", "TEXT+UTF", "LZP+TEXT"}[vi%3], Entropy: e, BlockSize: []uint{4 << 20, 8 << 20}[q], Jobs: 1, Checksum: cks[vi%3]},
				Shape: "wordlist", Size: []int{1 << 20, 1900000, 1300000}[(vi+q)%3] + 16*vi, Seed: S*31 + int64(vi*2+q), HintMode: []string{"exact", "absent"}[q], DecJobs: 1, Target: "TEXT"})
		}
	}
	if run.Thorough() {
		// all ordered transform pairs x 6 shapes; all 19x9 codec pairs; big blocks
		for _, a := range kz.Transforms[1:] {
			for _, b := range kz.Transforms[1:] {
				for _, sh := range []string{"text", "dna", "elfx86", "wav", "runs", "utf8big"} {
					mk(a+"+"+b, lightE[n%len(lightE)], sh, 50000, "")
				}
			}
		}
		for _, t := range kz.Transforms {
			for _, e := range allE {
				for _, sh := range []string{"text", "random", "skewed"} {
					mk(t, e, sh, 30000, t)
				}
			}
		}
		for _, t := range []string{"BWT", "BWTS", "LZ", "ROLZ", "TEXT", "NONE"} {
			for _, sh := range []string{"text", "dna"} {
				add(rtCase{Cfg: kz.Cfg{Transform: t, Entropy: "ANS0", BlockSize: 4<<20 + 16, Jobs: 4, Checksum: 32}, Shape: sh, Size: 9<<20 + 5, Seed: S, HintMode: "exact", DecJobs: 3, Target: t})
			}
		}
		add(rtCase{Cfg: kz.Cfg{Transform: "LZ", Entropy: "NONE", BlockSize: 64 << 20, Jobs: 2, Checksum: 64}, Shape: "html", Size: 70 << 20, Seed: S, HintMode: "absent", DecJobs: 2})
		add(rtCase{Cfg: kz.Cfg{Transform: "NONE", Entropy: "NONE", BlockSize: 160 << 20, Jobs: 1}, Shape: "periodic", Size: 160 << 20, Seed: S, HintMode: "exact", DecJobs: 1})
	} else {
		add(rtCase{Cfg: kz.Cfg{Transform: "BWT", Entropy: "ANS0", BlockSize: 4<<20 + 16, Jobs: 4, Checksum: 32}, Shape: "text", Size: 5<<20 + 5, Seed: S, HintMode: "exact", DecJobs: 3, Target: "BWT"})
	}
	// one > 4 MiB BWT block decoded with every per-block job count 1..8 (the inverse BWT splits its 8 chunks among the
	// jobs the reader grants to the block, which exceeds 1 only when the header carries the size hint)
	for dj := uint(1); dj <= 8; dj++ {
		if !run.Thorough() && (dj == 2 || dj == 4 || dj == 8) {
			continue
		}
		add(rtCase{Cfg: kz.Cfg{Transform: "BWT", Entropy: "NONE", BlockSize: 8 << 20, Jobs: 1, Checksum: []uint{0, 32}[dj%2]}, Shape: "html", Size: 4<<20 + 300000, Seed: S, HintMode: "exact", DecJobs: dj, Target: "BWT"})
	}
	cases := make([]any, len(tcs))
	for i := range tcs {
		cases[i] = tcs[i]
	}
	results := core.RunIsolated("c01", cases, core.IsoOpts{Workers: 14, CPUBudget: 15 * time.Minute, WallBudget: 30 * time.Minute})
	slowest(run, len(results), func(i int) (int64, string) {
		return results[i].CPUms, fmt.Sprintf("%v %s %d", tcs[i].Cfg, tcs[i].Shape, tcs[i].Size)
	})
	for i, r := range results {
		c := tcs[i]
		run.Eval(1)
		switch r.Status {
		case "crash":
			run.Violate(fmt.Sprintf("C01 process-death chain=%s/%s", c.Cfg.Transform, c.Cfg.Entropy), "child process died: "+core.Trunc(r.Detail, 1500), c)
			continue
		case "cpu", "timeout":
			run.Inconclusive(fmt.Sprintf("%s on %+v", r.Status, *c))
			continue
		}
		var rr rtResult
		json.Unmarshal(r.Out, &rr)
		switch rr.Kind {
		case "":
			nontriv := c.Size > 1 && (len(rr.Applied) > 0 || (c.Target == "" && rr.Blocks > rr.CopyBlks) || c.Target == "NONE")
			if c.Target != "" && c.Target != "NONE" {
				nontriv = false
				for _, a := range rr.Applied {
					if a == c.Target {
						nontriv = true
					}
				}
			}
			if nontriv {
				run.Nontrivial(fmt.Sprintf("%v|%s|%d|%s|%d", c.Cfg, c.Shape, c.Size, c.HintMode, c.DecJobs))
			}
			for _, a := range rr.Applied {
				run.Seen("applied_transform_x_shape", a+"/"+c.Shape)
			}
			run.Seen("entropy_x_shape", strings.ToUpper(c.Cfg.Entropy)+"/"+c.Shape)
			run.Seen("jobs_x_hint", fmt.Sprintf("j%d/%s", c.Cfg.Jobs, c.HintMode))
			run.Count("blocks_total", rr.Blocks)
			run.Count("copy_blocks", rr.CopyBlks)
		case "rejected":
			run.Count("rejected_at_construction", 1)
		default:
			run.Violate(rtSig(c, &rr), fmt.Sprintf("%v shape=%s size=%d hint=%s decjobs=%d: %s", c.Cfg, c.Shape, c.Size, c.HintMode, c.DecJobs, core.Trunc(rr.Detail, 300)), c)
		}
	}
	// which targeted codec x shape cells never saw the transform applied
	for i := 0; i < 6; i++ {
		run.Sample(tcs[(i*7919+5)%len(tcs)])
	}
}
