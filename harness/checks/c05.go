package checks

import (
	"fmt"

	"verifharness/core"
)

// C05: decoded output is independent of parallelism and schedule; blocks delivered once, in order;
// a failing block is reported and nothing from beyond it is returned in its place.

func c05Scenarios(run *core.Run) []*protoScenario {
	S := run.Seed
	var scs []*protoScenario
	type rc struct {
		cfg   [2]string
		bs    uint
		shape string
	}
	recs := []rc{
		{[2]string{"NONE", "NONE"}, 1024, "text"},
		{[2]string{"LZ", "HUFFMAN"}, 4096, "html"},
		{[2]string{"BWT", "ANS0"}, 8192, "text"},
		{[2]string{"TEXT+RLT", "FPAQ"}, 4096, "text"},
		{[2]string{"ROLZ", "NONE"}, 16384, "repeatblocks"},
		{[2]string{"LZX", "ANS1"}, 65536, "dna"},
	}
	jobs := []int{1, 2, 3, 4, 8, 64}
	// valid streams: every decoder job count, partial last batch, with/without hint, many blocks (> 63: saturating block-count hint)
	for ri, r := range recs {
		for bi, nb := range []int{1, 5, 9, 70, 130} {
			if nb > 9 && r.bs > 4096 {
				continue
			}
			for ji, j := range jobs {
				for _, hint := range []bool{false, true} {
					if !run.Thorough() && (ri+bi+ji)%2 == 1 && !(nb > 63 && hint) {
						continue
					}
					for _, mode := range []string{"pct", "free"} {
						if j == 1 && mode == "pct" {
							continue
						}
						sc := &protoScenario{Side: "dec", Tasks: j, Blocks: nb, BlockSz: r.bs, Shape: r.shape, Cfg: r.cfg, Checksum: []uint{0, 32, 64}[(ri+bi)%3], Hint: hint,
							Mode: mode, Runs: run.Pick(3, 20), Seed: S*100 + int64(ri*7+bi*3+ji), Listen: (ri+bi+ji)%2 == 0}
						if nb > 9 {
							sc.Runs = run.Pick(2, 8)
						}
						scs = append(scs, sc)
					}
				}
			}
		}
	}
	// valid streams under (bounded) exhaustive schedules, with and without listeners: the end-of-stream task cancels the batch
	// while the tasks of the last blocks are still decoding
	for ri, r := range recs[:3] {
		for _, j := range []int{2, 3, 4} {
			for _, nb := range []int{j - 1, j + 1, 2*j - 1} {
				for _, ls := range []bool{false, true} {
					sc := &protoScenario{Side: "dec", Tasks: j, Blocks: nb, BlockSz: r.bs, Shape: r.shape, Cfg: r.cfg, Checksum: 32, Listen: ls,
						Mode: "dfs", Bound: 2, Runs: run.Pick(250, 5000), Seed: S + int64(ri)}
					scs = append(scs, sc)
				}
			}
		}
	}
	// block ranges that start in the middle of a batch and span several batches (blocks compacted to the front of the batch)
	for ri, r := range recs[:3] {
		for ji, j := range []int{2, 3, 4} {
			for fi, fr := range [][2]int{{2, 0}, {3, 11}, {5, 0}, {2, 9}, {7, 12}} {
				if !run.Thorough() && (ri+ji+fi)%2 == 1 {
					continue
				}
				for _, mode := range []string{"pct", "free"} {
					scs = append(scs, &protoScenario{Side: "dec", Tasks: j, Blocks: 12, BlockSz: r.bs, Shape: r.shape, Cfg: r.cfg, Checksum: []uint{0, 32}[(ri+fi)%2], From: fr[0], To: fr[1],
						Mode: mode, Runs: run.Pick(3, 20), Seed: S*10 + int64(ri*17+ji*5+fi)})
				}
			}
		}
	}
	// one / two blocks above the 4 MiB threshold of the parallel inverse BWT, size hint present: the reader hands several jobs
	// to a single block (3, 5, 6, 7 jobs: uneven shares of the 8 chunks)
	for ji, j := range []int{3, 5, 6, 7, 4} {
		if !run.Thorough() && ji == 4 {
			continue
		}
		scs = append(scs, &protoScenario{Side: "dec", Tasks: j, Blocks: 1, BlockSz: 8 << 20, Shape: "html", Cfg: [2]string{"BWT", "NONE"}, Checksum: []uint{0, 32}[ji%2], Hint: true, Mode: "free", Runs: 1, Seed: S + int64(ji)})
	}
	scs = append(scs, &protoScenario{Side: "dec", Tasks: 6, Blocks: 2, BlockSz: 6 << 20, Shape: "text", Cfg: [2]string{"BWT", "ANS0"}, Checksum: 32, Hint: true, Mode: "free", Runs: 1, Seed: S})
	// failing block k: where are the neighbours when it fails?
	for ri, r := range recs[:4] {
		for _, j := range []int{2, 3, 4, 8} {
			nb := 2*j + 1
			for _, dmg := range []int{1, 2, j, j + 1, nb} {
				for _, hd := range []bool{false, true} {
					if !run.Thorough() && (ri+j+dmg+boolInt(hd))%2 == 1 {
						continue
					}
					ck := uint(32)
					if ri%2 == 1 {
						ck = 64
					}
					d := &protoScenario{Side: "dec", Tasks: j, Blocks: nb, BlockSz: r.bs, Shape: r.shape, Cfg: r.cfg, Checksum: ck, Damage: dmg, DamageHd: hd,
						Mode: "dfs", Bound: 2, Runs: run.Pick(150, 3000), Seed: S + int64(ri)}
					if j > 4 {
						d.Mode, d.Runs = "pct", run.Pick(60, 600)
					}
					scs = append(scs, d)
					f := *d
					f.Mode, f.Runs = "free", run.Pick(15, 200)
					scs = append(scs, &f)
				}
			}
		}
	}
	return scs
}

func c05(run *core.Run, replay string) {
	run.SetRule("valid streams (6 codec pairs, 1..130 blocks incl. > 63, partial last batch, with and without size hint) are decoded with decoder jobs {1,2,3,4,8,64} under PCT-controlled and randomly perturbed schedules: bytes must equal the original; " +
		"streams with a damaged payload / forged stored length in block k (k first, second, last of a batch, first of the next, last) are decoded under preemption-bounded DFS, PCT and free-running schedules, i.e. with the neighbours " +
		"before their wait, spinning, inside the shared read or past their publish when block k fails: everything returned (also by Read calls after the error) must be a prefix of the original and the failure must be reported; " +
		"valid streams are also decoded with block ranges starting inside a batch and spanning several batches, and as one / two blocks above the 4 MiB threshold of the parallel inverse BWT with 3..7 jobs for the block; " +
		"the C07 trace automaton runs on every execution. distinct_nontrivial = distinct hand-off interleavings observed")
	if replay != "" {
		var sc protoScenario
		if err := core.LoadReplay(replay, &sc); err != nil {
			run.Violate("C05 replay-unreadable", err.Error(), nil)
			return
		}
		sum := runProtoScenario(&sc)
		run.Eval(sum.Executions)
		fmt.Printf("replay: executions=%d trace=%v\n", sum.Executions, sum.SampleTrace)
		for i := range sum.Violations {
			v := &sum.Violations[i]
			run.Violate(protoSig("C05", v), v.Detail, v.Sched)
		}
		return
	}
	runProtoCheck(run, "C05", c05Scenarios(run))
}

func init() { register("C05", "exploration", c05) }
