package checks

import (
	"bytes"
	"fmt"

	"verifharness/container"
	"verifharness/core"
	"verifharness/kz"
)

// C02: with block checksums, damage confined to block payloads never yields wrong bytes as success.

type mutOp struct {
	Kind  string `json:"kind"`  // flip | set | swap | zero | cksum-from
	Block int    `json:"block"` // 1-based block index
	Off   int    `json:"off"`   // bit (flip) or byte offset inside the payload
	Val   int    `json:"val"`   // new byte / partner offset / run length / source block
}

type corruptCase struct {
	R      recipe  `json:"recipe"`
	Muts   []mutOp `json:"mutations"`
	Jobs   uint    `json:"jobs"`
	ReadSz []int   `json:"read_sizes"`
}

// payloadByte maps (block, byte offset within payload) to the bit offset in the stream
func applyMuts(ps *container.Stream, stream []byte, muts []mutOp) ([]byte, bool) {
	out := append([]byte(nil), stream...)
	changed := false
	get := func(bit, n int) uint64 { v, _ := container.Get(out, bit, n); return v }
	for _, m := range muts {
		if m.Block < 1 || m.Block > len(ps.Blocks) {
			continue
		}
		b := ps.Blocks[m.Block-1]
		nbytes := b.PayloadLen / 8
		switch m.Kind {
		case "flip":
			if m.Off < b.PayloadLen {
				bit := b.PayloadOff + m.Off
				out[bit>>3] ^= 1 << uint(7-bit&7)
				changed = true
			}
		case "set":
			if m.Off < nbytes {
				bit := b.PayloadOff + 8*m.Off
				if get(bit, 8) != uint64(m.Val&0xFF) {
					changed = true
				}
				container.SetBits(out, bit, 8, uint64(m.Val&0xFF))
			}
		case "swap":
			if m.Off < nbytes && m.Val < nbytes {
				b1, b2 := b.PayloadOff+8*m.Off, b.PayloadOff+8*m.Val
				v1, v2 := get(b1, 8), get(b2, 8)
				if v1 != v2 {
					changed = true
				}
				container.SetBits(out, b1, 8, v2)
				container.SetBits(out, b2, 8, v1)
			}
		case "zero":
			for k := 0; k < m.Val && m.Off+k < nbytes; k++ {
				bit := b.PayloadOff + 8*(m.Off+k)
				if get(bit, 8) != 0 {
					changed = true
				}
				container.SetBits(out, bit, 8, 0)
			}
		case "cksum-from":
			// in-pipeline damage: the stored checksum belongs to other content than the payload decodes to
			if m.Val >= 1 && m.Val <= len(ps.Blocks) && ps.Hdr.CkSize > 0 {
				o := ps.Blocks[m.Val-1]
				if o.Checksum != b.Checksum {
					changed = true
				}
				container.SetBits(out, b.CkOff, ps.Hdr.CkSize, o.Checksum)
			}
		}
	}
	return out, changed
}

func runCorruptCase(c *corruptCase) (kind, detail string, ok bool) {
	data, stream, err := c.R.build()
	if err != nil {
		return "", "", false
	}
	var ps *container.Stream
	var hc *kz.Cfg
	if c.R.Cfg.Headerless {
		cf := c.R.Cfg
		hc = &cf
		ps, err = container.ParseHeaderless(stream, int(cf.Checksum))
	} else {
		ps, err = container.Parse(stream)
	}
	if err != nil {
		return "harness", "container parse: " + err.Error(), true
	}
	mut, changed := applyMuts(ps, stream, c.Muts)
	if !changed {
		return "", "", false
	}
	var rr kz.ReadResult
	func() {
		defer func() {
			if x := recover(); x != nil {
				rr.Err = &kz.ErrPanic{Val: x}
			}
		}()
		r, err := kz.NewReader(&kz.Source{Data: mut}, c.Jobs, hc)
		if err != nil {
			rr.Err = err
			return
		}
		rr = kz.ReadAll(r, c.ReadSz, 64, 2*len(data)+1<<20)
		r.Close()
	}()
	if kz.IsPanic(rr.Err) {
		return "panic-escaped", rr.Err.Error(), true
	}
	all := append(append([]byte(nil), rr.Out...), rr.AfterErr...)
	isPrefix := len(all) <= len(data) && bytes.Equal(all, data[:len(all)])
	if rr.Err == nil {
		// clean end of stream
		if !bytes.Equal(rr.Out, data) {
			if isPrefix {
				return "damage-read-as-shorter-stream", fmt.Sprintf("damaged stream read to io.EOF without error: %d of %d bytes", len(rr.Out), len(data)), true
			}
			return "wrong-bytes-as-success", fmt.Sprintf("damaged stream read to io.EOF without error: %d bytes that differ from the %d-byte original", len(rr.Out), len(data)), true
		}
		return "", "", true // damage did not change the decoded content
	}
	if !bytes.Equal(rr.Out, data[:min(len(rr.Out), len(data))]) || len(rr.Out) > len(data) {
		return "wrong-bytes-before-error", fmt.Sprintf("the %d bytes returned up to the error (%v) are not a prefix of the original", len(rr.Out), rr.Err), true
	}
	if !isPrefix {
		return "wrong-bytes-after-error", fmt.Sprintf("after the error (%v) later Read calls returned %d more bytes that do not continue the original at offset %d", rr.Err, len(rr.AfterErr), len(rr.Out)), true
	}
	return "", "", true
}

func c02(run *core.Run, replay string) {
	run.SetRule("valid checksummed streams are damaged ONLY inside block payloads (positions from the independent container parser): bit flips, byte substitutions, swaps, zeroed runs, in one or several blocks, " +
		"and stored checksums exchanged between blocks (content differs from what was hashed); small NONE/NONE streams are hit at EVERY payload bit (exhaustive); the reader (jobs 1 and 3, varying buffer sizes) " +
		"keeps calling Read up to 64 times after the first error; blocks constructed to agree with the stored checksum on one half of its bits only (birthday search) are substituted in the payload; oracle: the concatenation of ALL returned bytes is a prefix of the original and a clean io.EOF implies equality; " +
		"non-trivial = the mutation really changed stream bits; distinct = (recipe, mutation set, jobs)")
	run.Assume("a 32-bit checksum legitimately lets 2^-32 of random damage through; whole payloads exchanged between blocks (each still self-consistent) are not generated: the format hashes block content only")
	if replay != "" {
		var c corruptCase
		if err := core.LoadReplay(replay, &c); err != nil {
			run.Violate("C02 replay-unreadable", err.Error(), nil)
			return
		}
		k, d, _ := runCorruptCase(&c)
		run.Eval(1)
		if k != "" {
			run.Violate("C02 "+k, d, c)
		}
		return
	}
	S := run.Seed
	recs := []recipe{
		{"none-ck32", cfg("NONE", "NONE", 1024, 2, 32), "text", 4500, S},
		{"none-ck64", cfg("NONE", "NONE", 1024, 3, 64), "html", 3300, S},
		{"lz-huffman-32", cfg("LZ", "HUFFMAN", 4096, 2, 32), "text", 40000, S},
		{"bwt-ans0-64", cfg("BWT", "ANS0", 4096, 4, 64), "html", 50000, S},
		{"text-cm-32", cfg("TEXT", "CM", 8192, 2, 32), "text", 30000, S},
		{"rolz-none-64", cfg("ROLZ", "NONE", 16384, 2, 64), "repeatblocks", 100000, S},
		{"rlt-range-32", cfg("RLT+ZRLT", "RANGE", 4096, 3, 32), "runs", 40000, S},
		{"lzx-ans1-32", cfg("LZX", "ANS1", 65536, 2, 32), "text", 300000, S},
		{"utf-fpaq-64", cfg("TEXT+UTF", "FPAQ", 8192, 2, 64), "cyrillic", 60000, S},
		{"exe-tpaq-32", cfg("EXE+LZ", "TPAQ", 16384, 1, 32), "elfx86", 40000, S},
		{"mm-huffman-32", cfg("MM+LZP", "HUFFMAN", 16384, 2, 32), "wav", 90000, S},
		{"headerless-32", kz.Cfg{Transform: "LZ", Entropy: "ANS0", BlockSize: 4096, Jobs: 2, Checksum: 32, Headerless: true}, "text", 30000, S},
		{"big-blocks-64", cfg("NONE", "NONE", 1<<20, 4, 64), "periodic", 6 << 20, S},
		// blocks the encoder stores in copy mode: streams and tail blocks of 1..15 bytes, incompressible blocks with the skip option
		{"tiny-9B-32", cfg("LZ", "HUFFMAN", 1024, 1, 32), "text", 9, S},
		{"tail-15B-64", cfg("BWT", "ANS0", 1024, 2, 64), "text", 2*1024 + 15, S},
		{"tail-1B-32", cfg("TEXT", "FPAQ", 4096, 3, 32), "html", 3*4096 + 1, S},
		{"skip-incompressible-32", kz.Cfg{Transform: "LZ", Entropy: "ANS0", BlockSize: 4096, Jobs: 2, Checksum: 32, SkipBlocks: true}, "random", 20000, S},
		{"skip-magic-64", kz.Cfg{Transform: "BWT", Entropy: "HUFFMAN", BlockSize: 8192, Jobs: 2, Checksum: 64, SkipBlocks: true}, "magicmix", 30000, S},
	}
	exhaustiveToo := map[string]bool{"tiny-9B-32": true, "tail-15B-64": true, "tail-1B-32": true}
	if run.Thorough() {
		for i, t := range kz.Transforms {
			recs = append(recs, recipe{"thorough-" + t, cfg(t, kz.Entropies[i%9], 4096, uint(1+i%3), []uint{32, 64}[i%2]), []string{"text", "dna", "runs", "elfx86", "cyrillic"}[i%5], 30000, S + int64(i)})
		}
	}
	var cases []*corruptCase
	rsz := [][]int{nil, {1000}, {1, 4093}, {100000}, {512, 0, 70000}}
	for ri := range recs {
		_, stream, err := recs[ri].build()
		if err != nil {
			run.Count("recipe_build_failed", 1)
			continue
		}
		var ps *container.Stream
		if recs[ri].Cfg.Headerless {
			ps, err = container.ParseHeaderless(stream, int(recs[ri].Cfg.Checksum))
		} else {
			ps, err = container.Parse(stream)
		}
		if err != nil || len(ps.Blocks) == 0 {
			run.Count("recipe_parse_failed", 1)
			continue
		}
		nb := len(ps.Blocks)
		if ri < 2 || exhaustiveToo[recs[ri].Name] {
			// exhaustive: every payload bit of every block (for the tail recipes: of the stored tail block)
			for bi, b := range ps.Blocks {
				if ri >= 2 && bi != nb-1 {
					continue
				}
				for bit := 0; bit < b.PayloadLen; bit++ {
					cases = append(cases, &corruptCase{R: recs[ri], Muts: []mutOp{{"flip", b.Index, bit, 0}}, Jobs: uint(1 + 2*(bit%2)), ReadSz: rsz[bit%len(rsz)]})
				}
			}
			run.Seen("streams_hit_at_every_payload_bit", recs[ri].Name)
		}
		nm := run.Pick(150, 1500)
		for k := 0; k < nm; k++ {
			r := core.Derive(S, "c02", recs[ri].Name, k)
			var muts []mutOp
			nmut := 1
			if r.Intn(4) == 0 {
				nmut = 2 + r.Intn(4)
			}
			for q := 0; q < nmut; q++ {
				b := ps.Blocks[r.Intn(nb)]
				nbytes := max(b.PayloadLen/8, 1)
				var off int
				switch r.Intn(5) {
				case 0: // block header area (mode, skip flags, stored length, stored checksum)
					off = r.Intn(min(nbytes, 14))
				case 1: // last bytes (hash tail handling / end of entropy data)
					off = max(nbytes-1-r.Intn(8), 0)
				default:
					off = r.Intn(nbytes)
				}
				switch r.Intn(6) {
				case 0, 1:
					muts = append(muts, mutOp{"flip", b.Index, min(off*8+r.Intn(8), b.PayloadLen-1), 0})
				case 2:
					muts = append(muts, mutOp{"set", b.Index, off, r.Intn(256)})
				case 3:
					muts = append(muts, mutOp{"swap", b.Index, off, r.Intn(nbytes)})
				case 4:
					muts = append(muts, mutOp{"zero", b.Index, off, 1 + r.Intn(40)})
				default:
					muts = append(muts, mutOp{"flip", b.Index, min(off*8+r.Intn(8), b.PayloadLen-1), 0})
				}
			}
			cases = append(cases, &corruptCase{R: recs[ri], Muts: muts, Jobs: []uint{1, 3, 2, 4}[k%4], ReadSz: rsz[k%len(rsz)]})
		}
		// stored checksum taken from another block
		for i := 1; i <= nb && i <= 12; i++ {
			j := i%nb + 1
			if j != i {
				cases = append(cases, &corruptCase{R: recs[ri], Muts: []mutOp{{"cksum-from", i, 0, j}}, Jobs: uint(1 + i%3), ReadSz: rsz[i%len(rsz)]})
			}
		}
	}
	core.ParallelDo(len(cases), 0, func(i int) {
		c := cases[i]
		if core.Hangs() >= 3 {
			return
		}
		g, returned := guarded(func() kd { k, d, ok := runCorruptCase(c); return kd{k, d, ok} })
		if !returned {
			run.Eval(1)
			run.Violate("C02 hang", fmt.Sprintf("[%s jobs=%d] %v: reading the damaged stream never returned (60 s, then 180 s)", c.R.Name, c.Jobs, c.Muts), c)
			return
		}
		k, d, ok := g.k, g.d, g.ok
		if !ok {
			run.Count("mutation_without_effect_or_unbuilt", 1)
			return
		}
		run.Eval(1)
		run.Nontrivial(fmt.Sprintf("%s|%v|%d", c.R.Name, c.Muts, c.Jobs))
		run.Count("mutations_"+c.Muts[0].Kind, 1)
		if k != "" && k != "harness" {
			run.Violate(fmt.Sprintf("C02 %s", k), fmt.Sprintf("[%s jobs=%d] %v: %s", c.R.Name, c.Jobs, c.Muts, d), c)
		}
	})
	// every bit of the stored checksum takes part in the verdict: constructed half-collisions (see c02probe.go)
	var probes []*halfProbe
	for _, ck := range []uint{32, 64} {
		for _, h := range []string{"lo", "hi"} {
			for q := 0; q < run.Pick(3, 12); q++ {
				probes = append(probes, &halfProbe{CkSize: ck, Half: h, Seed: run.Seed*53 + int64(q), Jobs: uint(1 + q%3)})
			}
		}
	}
	core.ParallelDo(len(probes), 0, func(i int) {
		k, d, ok := runHalfProbe(probes[i])
		if !ok {
			run.Count("half_collision_not_found", 1)
			return
		}
		run.Eval(1)
		run.Count("half_collision_probes", 1)
		run.Nontrivial(fmt.Sprintf("probe|%d|%s|%d", probes[i].CkSize, probes[i].Half, probes[i].Seed))
		if k != "" && k != "harness" {
			run.Violate("C02 "+k, d, probes[i])
		}
	})
	for i := 0; i < 6; i++ {
		run.Sample(cases[(i*7919+1)%len(cases)])
	}
}

func init() { register("C02", "exploration", c02) }
