package checks

import (
	"bytes"
	"encoding/json"
	"fmt"
	"sync"
	"time"

	kio "github.com/flanglet/kanzi-go/v2/io"

	"verifharness/core"
	"verifharness/gen"
	"verifharness/kz"
	"verifharness/sched"
)

// C04: the compressed stream is a pure function of (data, transform, entropy, block size, checksum, hint).

type pureCase struct {
	T, E     string
	BlockSz  uint     `json:"block_size"`
	Checksum uint     `json:"checksum"`
	Mix      []string `json:"mix"`    // shape of each successive block (cycled)
	Blocks   int      `json:"blocks"` // number of blocks (last one partial)
	Jobs     uint     `json:"jobs"`
	HintMode string   `json:"hint_mode"`
	WriteSz  []int    `json:"write_sizes"`
	Sched    string   `json:"sched"` // none | free | pct
	Seed     int64    `json:"seed"`
	Skip     bool     `json:"skip_blocks,omitempty"` // the skipBlocks option: incompressible / already compressed blocks are stored
}

type pureResult struct {
	Kind   string `json:"kind"`
	Detail string `json:"detail"`
	Order  uint64 `json:"order"`
	Tasks  int    `json:"tasks"`
	Stuck  bool   `json:"stuck"`
}

func mixedData(mix []string, blocks int, bs int, seed int64) []byte {
	var b []byte
	for i := 0; i < blocks; i++ {
		n := bs
		if i == blocks-1 {
			n = bs/2 + 7 // partial last block
		}
		b = append(b, gen.Make(mix[i%len(mix)], n, seed+int64(i))...)
	}
	return b
}

var pureBase sync.Map

func runPureCase(c *pureCase) (res pureResult) {
	data := mixedData(c.Mix, c.Blocks, int(c.BlockSz), c.Seed%5+1)
	hint := hintFor(c.HintMode, len(data), c.BlockSz)
	key := fmt.Sprintf("%s|%s|%d|%d|%v|%d|%d|%d|%v", c.T, c.E, c.BlockSz, c.Checksum, c.Mix, c.Blocks, hint, c.Seed%5+1, c.Skip)
	var base []byte
	if v, ok := pureBase.Load(key); ok {
		base = v.([]byte)
	} else {
		b, st, err := kz.Compress(data, kz.Cfg{Transform: c.T, Entropy: c.E, BlockSize: c.BlockSz, Jobs: 1, Checksum: c.Checksum, Hint: hint, SkipBlocks: c.Skip}, nil)
		if err != nil {
			if st == kz.StageNew {
				return pureResult{Kind: "rejected"}
			}
			return pureResult{Kind: "baseline-failed", Detail: err.Error()}
		}
		base = b
		pureBase.Store(key, b)
	}
	sink := &kz.Sink{}
	var w *kio.Writer
	var err error
	if c.Skip {
		w, err = kio.NewWriterWithCtx(sink, map[string]any{"transform": c.T, "entropy": c.E, "blockSize": c.BlockSz, "jobs": c.Jobs,
			"checksum": c.Checksum, "fileSize": hint, "headerless": false, "skipBlocks": true})
	} else {
		w, err = kio.NewWriter(sink, c.T, c.E, c.BlockSz, c.Jobs, c.Checksum, hint, false)
	}
	if err != nil {
		return pureResult{Kind: "rejected"}
	}
	var apiErr error
	body := func() {
		if p := catch(func() {
			off, k := 0, 0
			for off < len(data) {
				n := len(data) - off
				if len(c.WriteSz) > 0 {
					n = min(n, c.WriteSz[k%len(c.WriteSz)])
					k++
				}
				if _, e := w.Write(data[off : off+n]); e != nil {
					apiErr = e
					return
				}
				off += n
			}
			apiErr = w.Close()
		}); p != nil {
			apiErr = fmt.Errorf("panic: %v", p)
		}
	}
	var ev []sched.Event
	switch c.Sched {
	case "free":
		p := sched.NewPerturb(uint64(c.Seed), 1+int(c.Seed%2), sched.Fault{})
		ev = p.Run(body)
		res.Stuck = p.Stuck
	case "pct":
		ctl := sched.NewController(sched.NewPCT(uint64(c.Seed), 3, 40*int(c.Jobs)), sched.Fault{}, 0)
		ev = ctl.Run(body)
		res.Stuck = ctl.Stuck
	default:
		body()
	}
	res.Order = sched.OrderHash(ev)
	for _, e := range ev {
		if e.Step == kio.VerifStart {
			res.Tasks++
		}
	}
	if res.Stuck {
		res.Kind, res.Detail = "stuck", "tasks never finished"
		return
	}
	if apiErr != nil {
		res.Kind, res.Detail = "error", apiErr.Error()
		return
	}
	if !bytes.Equal(sink.Bytes(), base) {
		k := 0
		for k < len(base) && k < sink.Len() && sink.Bytes()[k] == base[k] {
			k++
		}
		res.Kind = "stream-differs"
		res.Detail = fmt.Sprintf("jobs=%d writes=%v sched=%s: %d bytes vs %d bytes for the jobs=1 single-Write run, first difference at byte %d", c.Jobs, c.WriteSz, c.Sched, sink.Len(), len(base), k)
	}
	return
}

func init() {
	core.RegisterChild("c04", func(raw json.RawMessage) any {
		var c pureCase
		if err := json.Unmarshal(raw, &c); err != nil {
			return pureResult{Kind: "harness", Detail: err.Error()}
		}
		return runPureCase(&c)
	})
	register("C04", "exploration", c04)
}

func c04(run *core.Run, replay string) {
	run.SetRule("for each (codec chain, entropy, block size, checksum, hint mode) and a multi-batch input whose blocks have HETEROGENEOUS content (dna, text, numeric, binary, executable, utf-8 ... so that per-block hints differ), " +
		"the sink bytes of every variant - job counts 2..64, four Write partitions, and schedules (none / random yields+sleeps at the hand-off hooks / controlled PCT priority schedules) - are compared with the jobs=1 single-Write run; " +
		"non-trivial = the variant ran >= 2 block tasks; distinct = (config, jobs, partition, hint mode, observed hand-off order hash)")
	if replay != "" {
		var c pureCase
		if err := core.LoadReplay(replay, &c); err != nil {
			run.Violate("C04 replay-unreadable", err.Error(), nil)
			return
		}
		r := runPureCase(&c)
		run.Eval(1)
		fmt.Printf("replay: %+v\n", r)
		if r.Kind != "" && r.Kind != "rejected" {
			run.Violate("C04 "+r.Kind, r.Detail, c)
		}
		return
	}
	S := run.Seed
	type cf struct {
		t, e  string
		bs    uint
		heavy bool
		skip  bool
	}
	cfgs := []cf{
		{"NONE", "NONE", 4096, false, false}, {"BWT", "ANS0", 16384, false, false}, {"TEXT+RLT+LZ", "ANS0", 32768, false, false}, {"TEXT+UTF+PACK+MM+LZX", "HUFFMAN", 32768, false, false},
		{"TEXT+UTF+EXE+PACK+MM+ROLZ", "NONE", 32768, false, false}, {"TEXT+UTF+BWT+RANK+ZRLT", "ANS0", 16384, false, false}, {"ROLZX", "FPAQ", 16384, false, false},
		{"EXE+RLT+TEXT+UTF+DNA", "TPAQ", 8192, true, false}, {"LZP+TEXT+UTF+BWT+LZP", "CM", 8192, true, false}, {"DNA+LZ", "HUFFMAN", 4096, false, false}, {"MM+SRT", "RANGE", 8192, false, false},
	}
	// every transform on its own and the chains that end in / start with the run-length stages, on inputs whose tail block is incompressible
	single := len(cfgs)
	for _, t := range kz.Transforms[1:] {
		cfgs = append(cfgs, cf{t, "NONE", 16384, false, false})
	}
	cfgs = append(cfgs, cf{"BWT+RANK+ZRLT", "ANS0", 16384, false, false}, cf{"RLT+ZRLT", "HUFFMAN", 16384, false, false}, cf{"ZRLT+LZ", "NONE", 32768, false, false})
	// blocks larger than the 256 KiB default buffers with chains whose MaxEncodedLen exceeds the block size by more than 1/8
	// (the task buffers are then grown inside the tasks)
	cfgs = append(cfgs, cf{"EXE+LZ", "NONE", 262144, false, false}, cf{"TEXT+UTF+EXE+PACK+MM+ROLZ", "NONE", 524288, false, false}, cf{"EXE+PACK", "HUFFMAN", 393216, false, false}, cf{"MM+EXE", "ANS0", 262144, false, false})
	// the skipBlocks option: the decision "store this block as is" must depend on the block alone (blocks that start with the
	// magic number of a compressed format, incompressible blocks), not on which task or batch position handles it
	skipFrom := len(cfgs)
	cfgs = append(cfgs, cf{"LZ", "HUFFMAN", 8192, false, true}, cf{"TEXT+LZX", "ANS0", 16384, false, true}, cf{"BWT", "NONE", 8192, false, true}, cf{"ROLZX", "FPAQ", 16384, false, true})
	mixes := [][]string{
		{"dna", "text", "numeric", "text", "random", "text", "text", "dna"},
		{"elfx86", "text", "cyrillic", "wav", "text", "base64", "runs", "magicmix", "utf8dirty", "html"},
		{"text"},
		{"random", "text", "zeros", "random", "html", "random"},
		{"text", "magicmix", "magicmix", "random", "magicmix", "text", "magicmix"},
	}
	jobs := []uint{2, 3, 4, 8, 16, 64}
	parts := [][]int{nil, {1}, {7, 4093, 13, 100003}, {-1}} // -1 => block aligned
	hints := []string{"absent", "exact", "smaller1", "larger"}
	var tcs []*pureCase
	for ci, c := range cfgs {
		for mi, mix := range mixes {
			if mi == 2 && ci%3 != 0 {
				continue
			}
			if (mi == 4) != (ci >= skipFrom) && !(ci >= skipFrom && mi == 3) {
				continue // the magic-number mix goes with the skipBlocks configurations
			}
			if ci >= single && ci < skipFrom && mi != 3 && mi != 0 {
				continue
			}
			nb := []int{9, 17, 25}[(ci+mi)%3]
			if mi == 3 {
				nb = []int{7, 13}[ci%2] // the partial last block is a "random" one
			}
			if c.bs >= 262144 {
				nb = 7
			}
			if c.heavy {
				nb = 7
			}
			for ji, j := range jobs {
				for pi, ws := range parts {
					if len(ws) == 1 && ws[0] == 1 && (c.bs*uint(nb) > 150000 || (ci+ji)%3 != 0) {
						continue // 1-byte writes only on the small ones
					}
					w := ws
					if len(ws) == 1 && ws[0] == -1 {
						w = []int{int(c.bs)}
					}
					nsched := run.Pick(3, 12)
					if ci >= single && ci < skipFrom {
						nsched = run.Pick(2, 6)
						if pi%2 == 1 {
							continue
						}
					}
					if c.heavy {
						nsched = run.Pick(1, 4)
					}
					for si := 0; si < nsched; si++ {
						sm := []string{"free", "pct", "free", "none"}[si%4]
						if !run.Thorough() && (ci+mi+ji+pi+si)%2 == 1 {
							continue
						}
						tcs = append(tcs, &pureCase{T: c.t, E: c.e, BlockSz: c.bs, Checksum: []uint{0, 32, 64}[(ci+ji)%3], Mix: mix, Blocks: nb, Jobs: j,
							HintMode: hints[(ci+ji+pi+si)%len(hints)], WriteSz: w, Sched: sm, Seed: S*1000 + int64(ci*131+ji*17+pi*5+si), Skip: c.skip})
					}
				}
			}
		}
	}
	cases := make([]any, len(tcs))
	for i := range tcs {
		cases[i] = tcs[i]
	}
	results := core.RunIsolated("c04", cases, core.IsoOpts{Workers: 14, WallBudget: 15 * time.Minute})
	slowest(run, len(results), func(i int) (int64, string) {
		return results[i].CPUms, fmt.Sprintf("%s/%s j=%d %s", tcs[i].T, tcs[i].E, tcs[i].Jobs, tcs[i].Sched)
	})
	for i, r := range results {
		c := tcs[i]
		run.Eval(1)
		if r.Status != "ok" {
			if r.Status == "crash" {
				run.Violate("C04 process-death", core.Trunc(r.Detail, 1000), c)
			} else {
				run.Inconclusive(fmt.Sprintf("%s: %s/%s jobs=%d", r.Status, c.T, c.E, c.Jobs))
			}
			continue
		}
		var pr pureResult
		json.Unmarshal(r.Out, &pr)
		run.Count("schedules_"+c.Sched, 1)
		if pr.Tasks >= 2 || c.Sched == "none" {
			run.Nontrivial(fmt.Sprintf("%s|%s|%d|%v|%s|%v|%x", c.T, c.E, c.Jobs, c.WriteSz, c.HintMode, c.Mix[0], pr.Order))
		}
		if pr.Order != 0 {
			run.Seen("hand_off_orders", fmt.Sprintf("%016x", pr.Order))
		}
		switch pr.Kind {
		case "", "rejected":
		case "baseline-failed":
			run.Count("baseline_failed_skipped", 1)
		default:
			run.Violate(fmt.Sprintf("C04 %s chain=%s/%s", pr.Kind, c.T, c.E), pr.Detail, c)
		}
	}
	for i := 0; i < 5; i++ {
		run.Sample(tcs[(i*7919+1)%len(tcs)])
	}
}
