package checks

import (
	"bytes"
	"fmt"

	"github.com/flanglet/kanzi-go/v2/bitstream"

	"verifharness/container"
	"verifharness/core"
	"verifharness/kz"
)

// C14: bitstream writer/reader lock-step against a bit-vector model.

type bsOp struct {
	K byte   `json:"k"` // 'b' WriteBit, 'w' WriteBits, 'a' WriteArray
	N int    `json:"n"` // bits
	V uint64 `json:"v"` // value (w/b) or data seed (a)
}

type bsCase struct {
	BufW int    `json:"bufw"`
	BufR int    `json:"bufr"`
	Ops  []bsOp `json:"ops"`
	Tag  string `json:"tag"`
	// Chunk > 0: the reader's source delivers at most Chunk bytes per Read (used by C06); -1 = random sizes
	Chunk int `json:"chunk,omitempty"`
}

func arrData(seed uint64, nbits int) []byte {
	b := make([]byte, (nbits+7)/8+int(seed%3)) // sometimes a longer backing slice
	core.NewRng(seed).Fill(b)
	return b
}

type bsObs struct {
	kind   string // "" = ok
	detail string
	op     string
}

func catch(f func()) (p any) {
	defer func() { p = recover() }()
	f()
	return nil
}

// runBsCase executes a program; returns the first deviation from the model
func runBsCase(c *bsCase) bsObs {
	sink := &kz.Sink{}
	obs, err := bitstream.NewDefaultOutputBitStream(sink, uint(c.BufW))
	if err != nil {
		return bsObs{"constructor", err.Error(), "new"}
	}
	model := &container.Bits{}
	sum := uint64(0)
	for i, op := range c.Ops {
		var p any
		name := ""
		switch op.K {
		case 'b':
			name = "WriteBit"
			p = catch(func() { obs.WriteBit(int(op.V)) })
			model.Put(op.V&1, 1)
			sum++
		case 'w':
			name = "WriteBits"
			var ret uint
			p = catch(func() { ret = obs.WriteBits(op.V, uint(op.N)) })
			if p == nil && ret != uint(op.N) {
				return bsObs{"return-value", fmt.Sprintf("op %d WriteBits(%d) returned %d", i, op.N, ret), name}
			}
			model.Put(op.V, op.N)
			sum += uint64(op.N)
		case 'a':
			name = "WriteArray"
			d := arrData(op.V, op.N)
			var ret uint
			p = catch(func() { ret = obs.WriteArray(d, uint(op.N)) })
			if p == nil && ret != uint(op.N) {
				return bsObs{"return-value", fmt.Sprintf("op %d WriteArray(%d) returned %d", i, op.N, ret), name}
			}
			model.PutBits(d, 0, op.N)
			sum += uint64(op.N)
		}
		if p != nil {
			return bsObs{"panic-write", fmt.Sprintf("op %d %s(%d bits): %v", i, name, op.N, p), name}
		}
		if w := obs.Written(); w != sum {
			return bsObs{"written-counter", fmt.Sprintf("after op %d %s(%d bits): Written()=%d, expected %d", i, name, op.N, w, sum), name}
		}
	}
	if err := obs.Close(); err != nil {
		return bsObs{"close-error", err.Error(), "Close"}
	}
	if w := obs.Written(); w != sum {
		return bsObs{"written-counter", fmt.Sprintf("after Close: Written()=%d, expected %d", w, sum), "Close"}
	}
	if err := obs.Close(); err != nil {
		return bsObs{"close-not-idempotent", err.Error(), "Close"}
	}
	if !bytes.Equal(sink.Bytes(), model.B) {
		k := 0
		for k < len(model.B) && k < sink.Len() && sink.Bytes()[k] == model.B[k] {
			k++
		}
		return bsObs{"sink-bytes-differ", fmt.Sprintf("sink has %d bytes, model %d; first difference at byte %d", sink.Len(), len(model.B), k), "image"}
	}
	// closed output stream refuses operations
	if catch(func() { obs.WriteBit(1) }) == nil && catch(func() { obs.WriteBit(1); obs.WriteBits(1, 64) }) == nil {
		return bsObs{"closed-not-refused", "WriteBit/WriteBits accepted after Close", "WriteBit"}
	}
	if catch(func() { obs.WriteBits(3, 64) }) == nil {
		return bsObs{"closed-not-refused", "WriteBits(64) accepted after Close", "WriteBits"}
	}
	if catch(func() { obs.WriteArray([]byte{1, 2}, 16) }) == nil {
		return bsObs{"closed-not-refused", "WriteArray accepted after Close", "WriteArray"}
	}
	if sink.Len() != len(model.B) {
		return bsObs{"closed-side-effect", "operations on the closed stream reached the sink", "closed"}
	}

	// mirrored read program, then a re-segmented one
	for pass := 0; pass < 2; pass++ {
		src := &kz.Source{Data: sink.Bytes()}
		if c.Chunk > 0 {
			ck := c.Chunk
			src.Chunk = func(int) int { return ck }
		} else if c.Chunk < 0 {
			rr := core.NewRng(uint64(len(c.Ops))*977 + uint64(pass))
			src.Chunk = func(asked int) int { return 1 + rr.Intn(min(asked, 1+rr.Intn(5000))) }
		}
		ibs, err := bitstream.NewDefaultInputBitStream(src, uint(c.BufR))
		if err != nil {
			return bsObs{"constructor", err.Error(), "new"}
		}
		ops := c.Ops
		if pass == 1 {
			ops = resegment(c)
		}
		pos := 0
		for i, op := range ops {
			var p any
			name := ""
			switch op.K {
			case 'b':
				name = "ReadBit"
				var v int
				p = catch(func() { v = ibs.ReadBit() })
				exp, _ := container.Get(model.B, pos, 1)
				if p == nil && uint64(v) != exp {
					return bsObs{"read-value", fmt.Sprintf("pass %d op %d ReadBit at bit %d: got %d want %d", pass, i, pos, v, exp), name}
				}
				pos++
			case 'w':
				name = "ReadBits"
				var v uint64
				p = catch(func() { v = ibs.ReadBits(uint(op.N)) })
				exp, _ := container.Get(model.B, pos, op.N)
				if p == nil && v != exp {
					return bsObs{"read-value", fmt.Sprintf("pass %d op %d ReadBits(%d) at bit %d: got %x want %x", pass, i, op.N, pos, v, exp), name}
				}
				pos += op.N
			case 'a':
				name = "ReadArray"
				buf := make([]byte, (op.N+7)/8)
				var ret uint
				p = catch(func() { ret = ibs.ReadArray(buf, uint(op.N)) })
				if p == nil {
					if ret != uint(op.N) {
						return bsObs{"return-value", fmt.Sprintf("pass %d op %d ReadArray(%d) returned %d", pass, i, op.N, ret), name}
					}
					exp := &container.Bits{}
					exp.PutBits(model.B, pos, op.N)
					if !bytes.Equal(buf, exp.B) {
						return bsObs{"read-value", fmt.Sprintf("pass %d op %d ReadArray(%d bits) at bit %d (alignment %d): bytes differ", pass, i, op.N, pos, pos&63), name}
					}
				}
				pos += op.N
			}
			if p != nil {
				return bsObs{"panic-read", fmt.Sprintf("pass %d op %d %s(%d bits) at bit %d: %v", pass, i, name, op.N, pos, p), name}
			}
			if rd := ibs.Read(); rd != uint64(pos) {
				return bsObs{"read-counter", fmt.Sprintf("pass %d after op %d %s(%d bits): Read()=%d, expected %d", pass, i, name, op.N, rd, pos), name}
			}
		}
		if err := ibs.Close(); err != nil {
			return bsObs{"close-error", err.Error(), "Close"}
		}
		if err := ibs.Close(); err != nil {
			return bsObs{"close-not-idempotent", err.Error(), "Close"}
		}
		if catch(func() { ibs.ReadBit() }) == nil {
			return bsObs{"closed-not-refused", "ReadBit accepted after Close", "ReadBit"}
		}
		if catch(func() { ibs.ReadBits(8) }) == nil {
			return bsObs{"closed-not-refused", "ReadBits accepted after Close", "ReadBits"}
		}
		if catch(func() { ibs.ReadArray(make([]byte, 4), 32) }) == nil {
			return bsObs{"closed-not-refused", "ReadArray accepted after Close", "ReadArray"}
		}
		if more, _ := ibs.HasMoreToRead(); more {
			return bsObs{"closed-not-refused", "HasMoreToRead true after Close", "HasMoreToRead"}
		}
	}
	return bsObs{}
}

// resegment derives a different read program over the same total number of bits
func resegment(c *bsCase) []bsOp {
	total := 0
	for _, op := range c.Ops {
		if op.K == 'b' {
			total++
		} else {
			total += op.N
		}
	}
	r := core.NewRng(uint64(total)*31 + uint64(len(c.Ops)))
	var ops []bsOp
	for total > 0 {
		var n int
		var k byte
		switch r.Intn(4) {
		case 0:
			k, n = 'b', 1
		case 1:
			k, n = 'w', 1+r.Intn(64)
		default:
			k, n = 'a', 1+r.Intn(3000)
		}
		if n > total {
			n = total
			if k == 'w' && n > 64 {
				n = 64
			}
		}
		ops = append(ops, bsOp{K: k, N: n})
		total -= n
	}
	return ops
}

func bsDescriptor(c *bsCase) string {
	// distinctness: tag for systematic cases; op-kind/alignment signature for random ones
	if c.Tag != "" {
		return c.Tag
	}
	pos := 0
	s := fmt.Sprintf("rnd bw=%d br=%d:", c.BufW, c.BufR)
	for i, op := range c.Ops {
		n := op.N
		if op.K == 'b' {
			n = 1
		}
		if i < 12 {
			s += fmt.Sprintf("%c%d@%d,", op.K, n, pos&63)
		}
		pos += n
	}
	return s + fmt.Sprint(pos)
}

func c14(run *core.Run, replay string) {
	run.SetRule("programs over {WriteBit, WriteBits(1..64), WriteArray(k bits)} run in lock-step with a bit-vector model, then read back mirrored and re-segmented; " +
		"systematic sweep = (alignment 0..63) x (array bit length) x (offset of the array start from the buffer flush boundary) x buffer size; " +
		"non-trivial = program contains at least one multi-bit operation and more than 8 bits in total; distinct = distinct (tag | op/alignment signature)")
	run.Assume("sources deliver full reads here (short reads are C06)")
	check := func(c *bsCase) {
		o := runBsCase(c)
		run.Eval(1)
		tot, multi := 0, false
		for _, op := range c.Ops {
			if op.K == 'b' {
				tot++
			} else {
				tot += op.N
				if op.N > 1 {
					multi = true
				}
			}
			run.Count("ops_"+string(op.K), 1)
		}
		if multi && tot > 8 {
			run.Nontrivial(bsDescriptor(c))
		}
		if o.kind != "" {
			run.Violate(fmt.Sprintf("C14 %s op=%s", o.kind, o.op), o.detail, c)
		}
	}
	if replay != "" {
		var c bsCase
		if err := core.LoadReplay(replay, &c); err != nil {
			run.Violate("C14 replay-unreadable", err.Error(), nil)
			return
		}
		check(&c)
		run.Nontrivial("replay")
		run.Nontrivial("replay2")
		return
	}

	var cases []*bsCase
	// --- systematic sweep around the flush boundary
	bufs := []int{1024, 1032, 4096}
	if run.Thorough() {
		bufs = []int{1024, 1032, 2048, 4096, 16384, 65536, 262144}
	}
	var aligns []int
	for a := 0; a < 64; a++ {
		aligns = append(aligns, a)
	}
	lens := []int{1, 7, 8, 9, 63, 64, 65, 127, 128, 255, 256, 257, 511, 512, 513, 600, 1000, 2048, 4100}
	offs := []int{-40, -33, -32, -31, -17, -16, -9, -8, -7, -1, 0, 1, 7, 8, 9, 16, 24, 32, 40}
	if run.Thorough() {
		lens = nil
		for l := 0; l <= 600; l++ {
			lens = append(lens, l)
		}
		lens = append(lens, 1000, 2048, 4100)
		offs = nil
		for o := -40; o <= 40; o++ {
			offs = append(offs, o)
		}
	}
	for bi, buf := range bufs {
		ls := append([]int{}, lens...)
		ls = append(ls, buf*8-300, buf*8-64, buf*8-8, buf*8-1, buf*8, buf*8+1, buf*8+8, buf*8+64, buf*8+300, 2*buf*8+13)
		for _, a := range aligns {
			for li, l := range ls {
				for oi, off := range offs {
					if run.Thorough() {
						// the full (alignment x length 0..600 x offset -40..40) grid only for the smallest buffer; thinned for the others
						switch {
						case buf == 1024:
						case buf <= 4096:
							if (li+oi+a)%5 != 0 {
								continue
							}
						default:
							if (li+oi+a)%61 != 0 {
								continue
							}
						}
					}
					// filler so that the array under test starts `off` bytes from the flush threshold (bufsize-8)
					fill := buf - 8 + off
					if fill < 0 {
						continue
					}
					seed := uint64(run.Seed)*1000003 + uint64(bi*7919+a*104729+li*1299709+oi)
					var ops []bsOp
					if fill > 0 {
						ops = append(ops, bsOp{K: 'a', N: fill * 8, V: seed})
					}
					if a > 0 {
						ops = append(ops, bsOp{K: 'w', N: a, V: seed * 31})
					}
					ops = append(ops, bsOp{K: 'a', N: l, V: seed + 1})
					ops = append(ops, bsOp{K: 'w', N: 64, V: 0xA5A5A5A5DEADBEEF ^ seed})
					ops = append(ops, bsOp{K: 'b', N: 1, V: 1})
					if l == 0 {
						continue // WriteArray(0) is legal but ReadArray(0) has nothing to mirror; covered in random programs
					}
					cases = append(cases, &bsCase{BufW: buf, BufR: bufs[(bi+oi)%len(bufs)], Ops: ops, Tag: fmt.Sprintf("sys buf=%d a=%d L=%d off=%d", buf, a, l, off)})
				}
			}
		}
	}
	// --- random programs
	nrand := run.Pick(20000, 300000)
	for i := 0; i < nrand; i++ {
		r := core.Derive(run.Seed, "c14rnd", i)
		bw := bufs[r.Intn(len(bufs))]
		br := bufs[r.Intn(len(bufs))]
		nops := 1 + r.Intn(40)
		var ops []bsOp
		for k := 0; k < nops; k++ {
			switch r.Intn(10) {
			case 0, 1:
				ops = append(ops, bsOp{K: 'b', N: 1, V: r.U64()})
			case 2, 3, 4, 5:
				n := 1 + r.Intn(64)
				if r.Intn(4) == 0 {
					n = []int{1, 8, 16, 32, 63, 64}[r.Intn(6)]
				}
				ops = append(ops, bsOp{K: 'w', N: n, V: r.U64()})
			default:
				var n int
				switch r.Intn(6) {
				case 0:
					n = 1 + r.Intn(64)
				case 1:
					n = 8 * (1 + r.Intn(64))
				case 2:
					n = 200 + r.Intn(400)
				case 3:
					n = bw*8 - 300 + r.Intn(600)
				case 4:
					n = 1 + r.Intn(3*bw*8)
				default:
					n = 64*(1+r.Intn(8)) + r.Intn(3) - 1
				}
				if n < 1 {
					n = 1
				}
				ops = append(ops, bsOp{K: 'a', N: n, V: r.U64()})
			}
		}
		cases = append(cases, &bsCase{BufW: bw, BufR: br, Ops: ops})
	}
	core.ParallelDo(len(cases), 0, func(i int) { check(cases[i]) })
	for i := 0; i < 5 && i < len(cases); i++ {
		run.Sample(cases[(i*7919)%len(cases)])
	}
	run.SetExtra("systematic_grid", map[string]any{"buffer_sizes": bufs, "alignments": len(aligns), "lengths": len(lens) + 10, "offsets": len(offs)})
}

func init() { register("C14", "exploration", c14) }
