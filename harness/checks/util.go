package checks

import "verifharness/core"

func stackNow() []byte { return core.Stack() }
