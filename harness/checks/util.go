package checks

import (
	"fmt"
	"runtime"
	"sort"
	"time"

	"verifharness/core"
)

func stackNow() []byte { return core.Stack() }

// slowest records the total child CPU and the ten most expensive cases in the evidence
func slowest(run *core.Run, n int, f func(i int) (int64, string)) {
	type it struct {
		ms int64
		d  string
	}
	var all []it
	var tot int64
	for i := 0; i < n; i++ {
		ms, d := f(i)
		tot += ms
		all = append(all, it{ms, d})
	}
	sort.Slice(all, func(a, b int) bool { return all[a].ms > all[b].ms })
	var top []string
	for i := 0; i < 10 && i < len(all); i++ {
		top = append(top, fmt.Sprintf("%dms %s", all[i].ms, all[i].d))
	}
	run.SetExtra("child_cpu_total_s", tot/1000)
	run.SetExtra("most_expensive_cases", top)
}

func yield() { runtime.Gosched() }

func numGoroutines() int { return runtime.NumGoroutine() }

// setMaxProcs sets GOMAXPROCS (0 = all CPUs) and returns the previous value
func setMaxProcs(n int) int {
	if n <= 0 {
		n = runtime.NumCPU()
	}
	return runtime.GOMAXPROCS(n)
}

// guarded runs f under a generous wall-clock hang guard (120 s, then a second attempt with 600 s; the guarded
// cases normally take milliseconds). ok == false means f never returned on either attempt: the caller reports
// a hang. Hung goroutines are leaked and may keep spinning; after 3 hangs callers stop early (core.Hangs()).
func guarded[R any](f func() R) (r R, ok bool) { return guardedFor(1, f) }

// guardedFor is guarded with both limits multiplied by scale (cases that legitimately take seconds, e.g. 64 MiB blocks)
func guardedFor[R any](scale int, f func() R) (r R, ok bool) {
	for _, d := range []time.Duration{time.Duration(scale) * 120 * time.Second, time.Duration(scale) * 600 * time.Second} {
		ch := make(chan R, 1)
		go func() { ch <- f() }()
		select {
		case r = <-ch:
			return r, true
		case <-time.After(d):
		}
	}
	core.NoteHang()
	return r, false
}

type kd struct {
	k, d string
	ok   bool
}
