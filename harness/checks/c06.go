package checks

import (
	"bytes"
	"fmt"
	"os"

	"verifharness/core"
	"verifharness/kz"
)

// C06: results do not depend on I/O granularity (source short reads, Read buffer sizes, Write partitions).

type ioCase struct {
	R       recipe `json:"recipe"`
	Mode    string `json:"mode"`    // source | readbuf | write
	Chunk   int    `json:"chunk"`   // source: fixed chunk (0: see Pattern)
	Pattern string `json:"pattern"` // source: random | pipe | eof-together
	Sizes   []int  `json:"sizes"`   // readbuf / write: sizes of the successive calls (cycled)
	Jobs    uint   `json:"jobs"`
	Seed    int64  `json:"seed"`
}

func runIoCase(c *ioCase) (kind, detail string, ok bool) {
	data, stream, err := c.R.build()
	if err != nil {
		return "", "", false
	}
	var hc *kz.Cfg
	if c.R.Cfg.Headerless {
		cf := c.R.Cfg
		hc = &cf
	}
	switch c.Mode {
	case "write":
		cf := c.R.Cfg
		if cf.Hint < 0 {
			cf.Hint = int64(len(data))
		}
		out, _, err := kz.Compress(data, cf, c.Sizes)
		if err != nil {
			return "write-partition-error", fmt.Sprintf("Write calls of sizes %v: %v", c.Sizes, err), true
		}
		if !bytes.Equal(out, stream) {
			return "write-partition-changes-stream", fmt.Sprintf("Write calls of sizes %v produce %d bytes, a single Write %d bytes", c.Sizes, len(out), len(stream)), true
		}
		return "", "", true
	}
	src := &kz.Source{Data: stream}
	rng := core.Derive(c.Seed, "c06src", c.Chunk, c.Pattern)
	switch {
	case c.Mode == "source" && c.Chunk > 0:
		ck := c.Chunk
		src.Chunk = func(int) int { return ck }
	case c.Mode == "source" && c.Pattern == "random":
		src.Chunk = func(asked int) int { return 1 + rng.Intn(1+rng.Intn(min(asked, 70000))) }
	case c.Mode == "source" && c.Pattern == "pipe":
		src.Chunk = func(int) int { return 65536 }
	case c.Mode == "source" && c.Pattern == "eof-together":
		src.EOFTogether = true
		src.Chunk = func(int) int { return 4096 + 3 }
	}
	var rr kz.ReadResult
	func() {
		defer func() {
			if x := recover(); x != nil {
				rr.Err = &kz.ErrPanic{Val: x}
			}
		}()
		r, err := kz.NewReader(src, c.Jobs, hc)
		if err != nil {
			rr.Err = err
			return
		}
		var sizes []int
		if c.Mode == "readbuf" {
			sizes = c.Sizes
		}
		rr = kz.ReadAll(r, sizes, 0, len(data)+1<<20)
		r.Close()
	}()
	what := fmt.Sprintf("source chunk=%d pattern=%s", c.Chunk, c.Pattern)
	if c.Mode == "readbuf" {
		what = fmt.Sprintf("Read buffer sizes %v", c.Sizes)
	}
	if rr.Err != nil {
		return c.Mode + "-error", fmt.Sprintf("%s, jobs %d: a stream that decodes from memory fails: %v", what, c.Jobs, rr.Err), true
	}
	if !bytes.Equal(rr.Out, data) {
		return c.Mode + "-wrong-bytes", fmt.Sprintf("%s, jobs %d: decoded %d bytes differ from the %d original", what, c.Jobs, len(rr.Out), len(data)), true
	}
	return "", "", true
}

func c06(run *core.Run, replay string) {
	run.SetRule("the same valid stream is decoded through io.Readers that deliver it in short reads (fixed 1..65537-byte chunks incl. sizes not multiple of 8, random sizes, pipe-like, (n>0, io.EOF) together), " +
		"with arbitrary sequences of Read buffer lengths (incl. 0 and 1), and the same data is written with arbitrary Write partitions; oracle: identical bytes / identical stream as the all-at-once run; " +
		"plus the C14 bit-level read programs replayed on DefaultInputBitStream over chunked sources; plus the built command-line tool decoding the same archive from a file, to a pipe and from a pipe fed in pieces of 333..65536 bytes, for block size x jobs combinations whose batches do / do not end on its 32 KiB read size; non-trivial = the partition actually splits the transfer (chunk < stream length); distinct = (recipe, mode, partition, jobs)")
	if replay != "" {
		var tc toolIoCase
		if err := core.LoadReplay(replay, &tc); err == nil && tc.BlockSize != "" {
			k, d := runToolIoCase(&tc)
			run.Eval(1)
			if k != "" {
				run.Violate("C06 tool "+k, d, tc)
			}
			if cliTmpRoot != "" {
				os.RemoveAll(cliTmpRoot)
			}
			return
		}
		var c ioCase
		if err := core.LoadReplay(replay, &c); err != nil {
			var b bsCase
			if err2 := core.LoadReplay(replay, &b); err2 == nil && len(b.Ops) > 0 {
				o := runBsCase(&b)
				run.Eval(1)
				if o.kind != "" {
					run.Violate("C06 bitstream "+o.kind+" op="+o.op, o.detail, b)
				}
				return
			}
			run.Violate("C06 replay-unreadable", err.Error(), nil)
			return
		}
		k, d, _ := runIoCase(&c)
		run.Eval(1)
		if k != "" {
			run.Violate("C06 "+k, d, c)
		}
		return
	}
	S := run.Seed
	recs := []recipe{
		{"none-none", cfg("NONE", "NONE", 4096, 2, 32), "text", 150000, S},
		{"lz-huffman", cfg("LZ", "HUFFMAN", 16384, 3, 0), "html", 300000, S},
		{"bwt-ans0", cfg("BWT", "ANS0", 65536, 4, 64), "text", 400000, S},
		{"text-fpaq", cfg("TEXT+UTF", "FPAQ", 65536, 1, 32), "cyrillic", 200000, S},
		{"rolz-none", cfg("ROLZ", "NONE", 32768, 2, 0), "repeatblocks", 250000, S},
		{"random-none", cfg("NONE", "NONE", 1<<20, 2, 0), "random", 3 << 20, S}, // blocks larger than the 256 KiB bitstream buffer
		{"small-blocks", cfg("RLT", "RANGE", 1024, 8, 32), "runs", 40000, S},
		{"headerless", kz.Cfg{Transform: "LZX", Entropy: "ANS1", BlockSize: 8192, Jobs: 2, Checksum: 32, Headerless: true}, "dna", 100000, S},
		{"tiny", cfg("NONE", "NONE", 1024, 1, 0), "text", 10, S},
		// size hints smaller than the data (a file that grew) with blocks larger than the default 256 KiB buffer: the Writer sizes
		// its first buffer from the hint and must grow it whatever the Write partition is
		{"hint-small-512k", kz.Cfg{Transform: "NONE", Entropy: "NONE", BlockSize: 512 << 10, Jobs: 1, Checksum: 32, Hint: 100000}, "text", 1300000, S},
		{"hint-tiny-1m", kz.Cfg{Transform: "LZ", Entropy: "HUFFMAN", BlockSize: 1 << 20, Jobs: 3, Checksum: 0, Hint: 1000}, "html", 2500000, S},
		// header size field smaller than the content and equal to a whole number of blocks / batches
		{"hint-understated-aligned", kz.Cfg{Transform: "NONE", Entropy: "NONE", BlockSize: 4096, Jobs: 1, Checksum: 32, Hint: 8192}, "text", 20603, S},
		{"hint-understated-aligned-lz", kz.Cfg{Transform: "LZ", Entropy: "HUFFMAN", BlockSize: 16384, Jobs: 2, Checksum: 0, Hint: 32768}, "html", 100000, S},
		{"hint-300k-256k", kz.Cfg{Transform: "RLT", Entropy: "NONE", BlockSize: 262144, Jobs: 2, Checksum: 64, Hint: 250000}, "random", 900000, S},
	}
	chunks := []int{1, 2, 3, 5, 7, 8, 9, 13, 64, 1000, 4095, 4096, 4097, 65535, 65536, 65537, 262143, 262144, 262145}
	var cases []*ioCase
	for ri := range recs {
		for ci, ck := range chunks {
			if ck < 4 && recs[ri].Size > 400000 && !run.Thorough() {
				continue
			}
			for _, j := range []uint{1, 3} {
				if !run.Thorough() && (ci+int(j)+ri)%2 == 0 && ck > 13 {
					continue
				}
				cases = append(cases, &ioCase{R: recs[ri], Mode: "source", Chunk: ck, Jobs: j, Seed: S})
			}
		}
		for _, pat := range []string{"random", "pipe", "eof-together"} {
			cases = append(cases, &ioCase{R: recs[ri], Mode: "source", Pattern: pat, Jobs: 2, Seed: S})
		}
		nrand := run.Pick(12, 120)
		for k := 0; k < nrand; k++ {
			cases = append(cases, &ioCase{R: recs[ri], Mode: "source", Pattern: "random", Jobs: uint(1 + k%4), Seed: S*1000 + int64(k)})
		}
		for k, sz := range [][]int{{1}, {0, 1}, {7, 0, 300}, {4095, 4097}, {1024}, {1 << 20}, {3, 65536, 1, 0, 100000}, {int(recs[ri].Cfg.BlockSize)}, {2 * int(recs[ri].Cfg.BlockSize), 1 << 20}, {16384}} {
			if len(sz) == 1 && sz[0] == 1 && recs[ri].Size > 400000 {
				continue
			}
			cases = append(cases, &ioCase{R: recs[ri], Mode: "readbuf", Sizes: sz, Jobs: uint(1 + k%3), Seed: S})
		}
		for _, sz := range [][]int{{1}, {7}, {1000}, {1, 4093, 13}, {int(recs[ri].Cfg.BlockSize)}, {int(recs[ri].Cfg.BlockSize) + 1}, {3, 100000}, {200000, 100000, 300000}, {65536}, {32768}, {4000}, {300000}} {
			if sz[0] == 1 && len(sz) == 1 && recs[ri].Size > 400000 {
				continue
			}
			cases = append(cases, &ioCase{R: recs[ri], Mode: "write", Sizes: sz, Jobs: 1, Seed: S})
		}
	}
	core.ParallelDo(len(cases), 0, func(i int) {
		c := cases[i]
		if core.Hangs() >= 3 {
			return
		}
		g, returned := guarded(func() kd { k, d, ok := runIoCase(c); return kd{k, d, ok} })
		if !returned {
			run.Eval(1)
			run.Violate("C06 hang mode="+c.Mode, fmt.Sprintf("[%s] chunk=%d pattern=%s sizes=%v: the call never returned (60 s, then 180 s)", c.R.Name, c.Chunk, c.Pattern, c.Sizes), c)
			return
		}
		k, d, ok := g.k, g.d, g.ok
		if !ok {
			run.Count("recipe_build_failed", 1)
			return
		}
		run.Eval(1)
		run.Nontrivial(fmt.Sprintf("%s|%s|%d|%s|%v|%d|%d", c.R.Name, c.Mode, c.Chunk, c.Pattern, c.Sizes, c.Jobs, c.Seed))
		run.Count("cases_"+c.Mode, 1)
		if k != "" {
			run.Violate("C06 "+k, fmt.Sprintf("[%s] %s", c.R.Name, d), c)
		}
	})
	// bit-level programs over chunked sources
	nb := run.Pick(4000, 60000)
	core.ParallelDo(nb, 0, func(i int) {
		r := core.Derive(S, "c06bs", i)
		bw := []int{1024, 4096, 16384}[r.Intn(3)]
		c := &bsCase{BufW: bw, BufR: []int{1024, 4096, 16384}[r.Intn(3)], Chunk: []int{1, 3, 7, 8, 9, 13, 64, 1000, 1021, -1}[r.Intn(10)]}
		for k := 1 + r.Intn(25); k > 0; k-- {
			switch r.Intn(6) {
			case 0:
				c.Ops = append(c.Ops, bsOp{K: 'b', N: 1, V: r.U64()})
			case 1, 2:
				c.Ops = append(c.Ops, bsOp{K: 'w', N: 1 + r.Intn(64), V: r.U64()})
			default:
				c.Ops = append(c.Ops, bsOp{K: 'a', N: 1 + r.Intn([]int{64, 600, 9000, 3 * bw * 8}[r.Intn(4)]), V: r.U64()})
			}
		}
		o := runBsCase(c)
		run.Eval(1)
		run.Count("bitstream_programs_over_chunked_sources", 1)
		run.Nontrivial(fmt.Sprintf("bs|%d|%d", i, c.Chunk))
		if o.kind != "" {
			run.Violate("C06 bitstream "+o.kind+" op="+o.op, fmt.Sprintf("source chunk=%d: %s", c.Chunk, o.detail), c)
		}
	})
	c06Tool(run)
	for i := 0; i < 6; i++ {
		run.Sample(cases[(i*7919+1)%len(cases)])
	}
}

func init() { register("C06", "exploration", c06) }
