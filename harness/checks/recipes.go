package checks

import (
	"fmt"
	"sync"

	"verifharness/gen"
	"verifharness/kz"
)

// recipe describes a valid stream built once and reused by several monitors
type recipe struct {
	Name  string `json:"name"`
	Cfg   kz.Cfg `json:"cfg"`
	Shape string `json:"shape"`
	Size  int    `json:"size"`
	Seed  int64  `json:"seed"`
}

type built struct {
	data   []byte
	stream []byte
	err    error
}

var recipeCache sync.Map

// build compresses the recipe's data with the current tree (cached per process)
func (r *recipe) build() ([]byte, []byte, error) {
	key := fmt.Sprintf("%+v", *r)
	if v, ok := recipeCache.Load(key); ok {
		b := v.(*built)
		return b.data, b.stream, b.err
	}
	data := gen.Make(r.Shape, r.Size, r.Seed)
	cfg := r.Cfg
	if cfg.Hint < 0 {
		cfg.Hint = int64(len(data))
	}
	stream, _, err := kz.Compress(data, cfg, nil)
	b := &built{data, stream, err}
	recipeCache.Store(key, b)
	return data, stream, err
}

func cfg(t, e string, bs, jobs, ck uint) kz.Cfg {
	return kz.Cfg{Transform: t, Entropy: e, BlockSize: bs, Jobs: jobs, Checksum: ck}
}
