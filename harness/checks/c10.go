package checks

import (
	"bytes"
	"crypto/sha256"
	"encoding/hex"
	"encoding/json"
	"fmt"
	"io"
	"os"
	"path/filepath"
	"strings"

	curhash "github.com/flanglet/kanzi-go/v2/hash"
	refhash "kanziref/v2/hash"
	refio "kanziref/v2/io"

	"verifharness/core"
	"verifharness/gen"
	"verifharness/kz"
)

// C10: streams written by the pinned reference encoder keep decoding with the current decoder.

func refCompress(data []byte, c kz.Cfg) (out []byte, err error) {
	sink := &kz.Sink{}
	defer func() {
		if r := recover(); r != nil {
			err = fmt.Errorf("panic: %v", r)
		}
	}()
	w, e := refio.NewWriter(sink, c.Transform, c.Entropy, c.BlockSize, c.Jobs, c.Checksum, c.Hint, c.Headerless)
	if e != nil {
		return nil, e
	}
	if _, e := w.Write(data); e != nil {
		return nil, e
	}
	if e := w.Close(); e != nil {
		return nil, e
	}
	return sink.Bytes(), nil
}

func refDecompress(stream []byte, jobs uint, c *kz.Cfg) (out []byte, err error) {
	defer func() {
		if r := recover(); r != nil {
			err = fmt.Errorf("panic: %v", r)
		}
	}()
	var r *refio.Reader
	if c != nil && c.Headerless {
		r, err = refio.NewHeaderlessReader(&kz.Source{Data: stream}, jobs, c.Transform, c.Entropy, c.BlockSize, c.Checksum, c.Hint, 6)
	} else {
		r, err = refio.NewReader(&kz.Source{Data: stream}, jobs)
	}
	if err != nil {
		return nil, err
	}
	buf := make([]byte, 65536)
	for {
		n, e := r.Read(buf)
		out = append(out, buf[:n]...)
		if e == io.EOF {
			return out, nil
		}
		if e != nil {
			return out, e
		}
		if len(out) > 1<<28 {
			return out, fmt.Errorf("runaway")
		}
	}
}

type corpusEntry struct {
	File   string `json:"file"`
	Cfg    kz.Cfg `json:"cfg"`
	Shape  string `json:"shape"`
	Size   int    `json:"size"`
	SHA256 string `json:"sha256"`
}

func corpusDir() string { return filepath.Join(core.VerifRoot(), "corpus") }

// shapeFor picks data on which the transform really applies
func shapeFor(t string) string {
	switch {
	case strings.Contains(t, "DNA"):
		return "dna"
	case strings.Contains(t, "UTF"):
		return "cyrillic"
	case strings.Contains(t, "EXE"):
		return "elfx86"
	case strings.Contains(t, "MM"):
		return "wav"
	case strings.Contains(t, "RLT"):
		return "runs"
	case strings.Contains(t, "PACK"):
		return "smallalpha"
	case strings.Contains(t, "ROLZ"), strings.Contains(t, "LZ"):
		return "repeatblocks"
	}
	return "text"
}

// CorpusGen writes the golden corpus with the REFERENCE encoder (run once; the result is committed)
func CorpusGen() error {
	dir := corpusDir()
	os.MkdirAll(dir, 0o755)
	var entries []corpusEntry
	n := 0
	add := func(c kz.Cfg, shape string, size int) {
		data := gen.Make(shape, size, 20260923+int64(n))
		if c.Hint < 0 {
			c.Hint = int64(len(data))
		}
		s, err := refCompress(data, c)
		if err != nil {
			fmt.Printf("skip %v %s: reference encoder fails: %v\n", c, shape, err)
			return
		}
		var hc *kz.Cfg
		if c.Headerless {
			hc = &c
		}
		back, err := refDecompress(s, 1, hc)
		if err != nil || !bytes.Equal(back, data) {
			fmt.Printf("skip %v %s: reference does not round-trip (%v)\n", c, shape, err)
			return
		}
		n++
		name := fmt.Sprintf("%03d_%s_%s_%s.knz", n, strings.ReplaceAll(c.Transform, "+", "-"), c.Entropy, shape)
		os.WriteFile(filepath.Join(dir, name), s, 0o644)
		h := sha256.Sum256(data)
		entries = append(entries, corpusEntry{File: name, Cfg: c, Shape: shape, Size: size, SHA256: hex.EncodeToString(h[:])})
	}
	for i, t := range kz.Transforms {
		e := kz.Entropies[i%6]
		add(kz.Cfg{Transform: t, Entropy: e, BlockSize: 16384, Jobs: 1, Checksum: []uint{0, 32, 64}[i%3]}, shapeFor(t), 40000+i*37)
		add(kz.Cfg{Transform: t, Entropy: "NONE", BlockSize: 65536, Jobs: 1, Checksum: 32, Hint: -1}, "text", 30000)
	}
	for i, e := range kz.Entropies {
		add(kz.Cfg{Transform: "NONE", Entropy: e, BlockSize: 8192, Jobs: 1, Checksum: []uint{32, 64, 0}[i%3]}, []string{"text", "skewed", "random"}[i%3], 30000)
		add(kz.Cfg{Transform: "BWT", Entropy: e, BlockSize: 32768, Jobs: 1, Checksum: 0, Hint: -1}, "html", 50000)
	}
	for i, lc := range kz.LevelChains {
		add(kz.Cfg{Transform: lc[0], Entropy: lc[1], BlockSize: 32768, Jobs: 1, Checksum: []uint{0, 32, 64}[i%3], Hint: -1}, []string{"text", "cjk", "elfx86", "wav", "dna"}[i%5], 60000)
	}
	// small blocks, tiny inputs, empty input, headerless
	// alphabets of exactly k symbols: group boundaries in the frequency / code-length headers of the static coders
	for _, e := range []string{"ANS0", "ANS1", "RANGE", "HUFFMAN"} {
		for _, k := range []int{1, 2, 6, 7, 63, 64, 65, 128, 255, 256} {
			add(kz.Cfg{Transform: "NONE", Entropy: e, BlockSize: 1024, Jobs: 1, Checksum: 32}, fmt.Sprintf("alpha:%d", k), 2500)
		}
	}
	// long runs / long distances: the multi-byte length and offset forms of RLT, ZRLT, LZ, ROLZ
	for i, t := range []string{"RLT", "ZRLT", "RLT+ZRLT", "LZ", "LZX", "LZP", "ROLZ", "ROLZX", "BWT+RANK+ZRLT", "TEXT+RLT", "SRT", "MTFT"} {
		add(kz.Cfg{Transform: t, Entropy: []string{"NONE", "HUFFMAN", "ANS0"}[i%3], BlockSize: 1 << 20, Jobs: 1, Checksum: []uint{32, 0, 64}[i%3]}, "longruns", 500000)
		if strings.Contains(t, "LZ") {
			add(kz.Cfg{Transform: t, Entropy: "NONE", BlockSize: 1 << 20, Jobs: 1, Checksum: 32}, "farmatch", 260000)
		}
	}
	add(kz.Cfg{Transform: "LZ", Entropy: "HUFFMAN", BlockSize: 1024, Jobs: 1, Checksum: 32}, "text", 5000)
	add(kz.Cfg{Transform: "BWT", Entropy: "ANS0", BlockSize: 1024, Jobs: 1, Checksum: 64}, "text", 10)
	add(kz.Cfg{Transform: "TEXT", Entropy: "FPAQ", BlockSize: 1024, Jobs: 1}, "text", 0)
	add(kz.Cfg{Transform: "LZX", Entropy: "ANS1", BlockSize: 4096, Jobs: 1, Checksum: 32, Headerless: true}, "html", 20000)
	add(kz.Cfg{Transform: "RLT+ZRLT", Entropy: "RANGE", BlockSize: 4096, Jobs: 1, Headerless: true}, "runs", 20000)
	add(kz.Cfg{Transform: "BWT", Entropy: "ANS0", BlockSize: 4<<20 + 16, Jobs: 1, Checksum: 32, Hint: -1}, "zeros", 4<<20+16) // > 4 MiB BWT regime, compresses to almost nothing
	b, _ := json.MarshalIndent(entries, "", " ")
	return os.WriteFile(filepath.Join(dir, "manifest.json"), b, 0o644)
}

type fmtCase struct {
	Cfg   kz.Cfg `json:"cfg"`
	Shape string `json:"shape"`
	Size  int    `json:"size"`
	Seed  int64  `json:"seed"`
	DecJ  uint   `json:"dec_jobs"`
	File  string `json:"corpus_file,omitempty"`
}

func runFmtCase(c *fmtCase) (kind, detail string, ok bool) {
	if c.File != "" {
		b, err := os.ReadFile(filepath.Join(corpusDir(), "manifest.json"))
		if err != nil {
			return "corpus-missing", err.Error(), true
		}
		var entries []corpusEntry
		json.Unmarshal(b, &entries)
		for _, e := range entries {
			if e.File != c.File {
				continue
			}
			s, err := os.ReadFile(filepath.Join(corpusDir(), e.File))
			if err != nil {
				return "corpus-missing", err.Error(), true
			}
			var hc *kz.Cfg
			if e.Cfg.Headerless {
				cc := e.Cfg
				hc = &cc
			}
			rr := kz.Decompress(s, c.DecJ, hc)
			if rr.Err != nil {
				return "corpus-undecodable", fmt.Sprintf("%s (%v): %v", e.File, e.Cfg, rr.Err), true
			}
			h := sha256.Sum256(rr.Out)
			if hex.EncodeToString(h[:]) != e.SHA256 || len(rr.Out) != e.Size {
				return "corpus-content-changed", fmt.Sprintf("%s decodes to %d bytes with a different SHA-256 than recorded (%d bytes)", e.File, len(rr.Out), e.Size), true
			}
			return "", "", true
		}
		return "corpus-missing", c.File + " not in manifest", true
	}
	data := gen.Make(c.Shape, c.Size, c.Seed)
	cf := c.Cfg
	if cf.Hint < 0 {
		cf.Hint = int64(len(data))
	}
	s, err := refCompress(data, cf)
	if err != nil {
		return "", "", false // the reference itself fails: not part of the claim
	}
	var hc *kz.Cfg
	if cf.Headerless {
		hc = &cf
	}
	back, err := refDecompress(s, 1, hc)
	if err != nil || !bytes.Equal(back, data) {
		return "", "", false
	}
	rr := kz.Decompress(s, c.DecJ, hc)
	if rr.Err != nil {
		return "reference-stream-undecodable", fmt.Sprintf("the reference decodes its own %d-byte stream, the current decoder fails: %v", len(s), rr.Err), true
	}
	if !bytes.Equal(rr.Out, data) {
		return "reference-stream-decodes-differently", fmt.Sprintf("current decoder returns %d bytes that differ from what the reference decoder returns (%d)", len(rr.Out), len(data)), true
	}
	return "", "", true
}

func c10(run *core.Run, replay string) {
	run.SetRule("two code histories linked into one binary: kanziref/v2 = snapshot of the pinned commit 76efab5 (under /verif/ref), kanzi-go/v2 = current tree. " +
		"(1) golden corpus written once by the reference encoder (every transform, every entropy codec, checksum 0/32/64, hint, small blocks, headerless, > 4 MiB BWT): each file must decode with the current Reader (jobs 1 and 3) to the recorded SHA-256; " +
		"(2) differential: for generated (config, data) on which reference writer+reader round-trip, current.Read(reference.Write(x)) == x; (3) XXHash32/64 of random buffers, reference vs current. " +
		"non-trivial = reference round-trips and the stream has a multi-byte payload; distinct = (config, shape, size, seed | corpus file)")
	run.Assume("only bitstream format 6 as written by the pinned snapshot; pairs on which the reference itself fails are skipped and counted")
	check := func(c *fmtCase) {
		if core.Hangs() >= 3 {
			return
		}
		g, returned := guarded(func() kd { k, d, ok := runFmtCase(c); return kd{k, d, ok} })
		if !returned {
			run.Eval(1)
			run.Violate("C10 hang", fmt.Sprintf("%+v: decoding never returned (60 s, then 180 s)", *c), c)
			return
		}
		k, d, ok := g.k, g.d, g.ok
		if !ok {
			run.Count("reference_failed_pair_skipped", 1)
			return
		}
		run.Eval(1)
		if c.Size > 1 || c.File != "" {
			run.Nontrivial(fmt.Sprintf("%v|%s|%d|%d|%s|%d", c.Cfg, c.Shape, c.Size, c.Seed, c.File, c.DecJ))
		}
		if c.File != "" {
			run.Count("corpus_files_decoded", 1)
		} else {
			run.Seen("codec_cells", strings.ToUpper(c.Cfg.Transform)+"/"+c.Cfg.Entropy)
		}
		if k != "" {
			sig := "C10 " + k
			if c.File == "" {
				sig += fmt.Sprintf(" chain=%s/%s", c.Cfg.Transform, c.Cfg.Entropy)
			}
			run.Violate(sig, d, c)
		}
	}
	if replay != "" {
		var c fmtCase
		if err := core.LoadReplay(replay, &c); err != nil {
			run.Violate("C10 replay-unreadable", err.Error(), nil)
			return
		}
		check(&c)
		return
	}
	var cases []*fmtCase
	// (1) corpus
	b, err := os.ReadFile(filepath.Join(corpusDir(), "manifest.json"))
	if err != nil {
		run.Violate("C10 corpus-missing", err.Error(), nil)
	} else {
		var entries []corpusEntry
		json.Unmarshal(b, &entries)
		for _, e := range entries {
			cases = append(cases, &fmtCase{File: e.File, DecJ: 1}, &fmtCase{File: e.File, DecJ: 3})
		}
		run.SetExtra("corpus_files", len(entries))
	}
	// (2) differential pairs
	S := run.Seed
	np := run.Pick(600, 20000)
	for i := 0; i < np; i++ {
		r := core.Derive(S, "c10", i)
		var t string
		switch r.Intn(4) {
		case 0:
			t = kz.Transforms[r.Intn(len(kz.Transforms))]
		case 1:
			t = kz.LevelChains[r.Intn(10)][0]
		default:
			ln := 1 + r.Intn(4)
			var p []string
			for k := 0; k < ln; k++ {
				p = append(p, kz.Transforms[1+r.Intn(18)])
			}
			t = strings.Join(p, "+")
		}
		e := kz.Entropies[r.Intn(len(kz.Entropies))]
		size := []int{0, 1, 15, 16, 100, 1000, 5000, 20000, 70000, 150000}[r.Intn(10)]
		if kz.Heavy(e) && size > 30000 {
			size = 30000
		}
		bs := []uint{1024, 4096, 16384, 65536}[r.Intn(4)]
		if kz.Heavy(e) && size > 5*int(bs) {
			size = 5 * int(bs)
		}
		hint := int64(0)
		if r.Intn(3) == 0 {
			hint = -1
		}
		cases = append(cases, &fmtCase{Cfg: kz.Cfg{Transform: t, Entropy: e, BlockSize: bs, Jobs: 1, Checksum: []uint{0, 32, 64}[r.Intn(3)], Hint: hint, Headerless: r.Intn(8) == 0},
			Shape: pickShape(r), Size: size, Seed: int64(r.Intn(1 << 30)), DecJ: uint(1 + r.Intn(4))})
	}
	// systematic grid: every transform x every entropy codec x three block size classes (parameters such as hash / dictionary
	// sizes are derived from the block size and from the entropy codec name), on the content the transform is made for
	for ti, t := range kz.Transforms {
		for ei, e := range kz.Entropies {
			for bi, bs := range []uint{1024, 32768, 1 << 20} {
				if !run.Thorough() && (ti+ei+bi)%3 != 0 && !(t == "TEXT" || t == "RLT" || t == "ROLZX" || e == "TPAQX" || e == "TPAQ") {
					continue
				}
				size := []int{5000, 70000, 140000}[bi]
				if kz.Heavy(e) {
					size = []int{3000, 24000, 40000}[bi]
				}
				cases = append(cases, &fmtCase{Cfg: kz.Cfg{Transform: t, Entropy: e, BlockSize: bs, Jobs: 1, Checksum: []uint{0, 32, 64}[(ti+ei)%3]}, Shape: shapeFor(t), Size: size, Seed: S + int64(ti*27+ei*3+bi), DecJ: uint(1 + (ti+ei)%3)})
			}
		}
	}
	// tables driven to their capacity: a vocabulary that fills the text codec's dictionary (2^19 entries, reachable only with
	// block sizes above 4 MiB / 16 MiB) and wraps it; long-distance and many-match inputs in multi-MiB blocks
	for i, cc := range []struct {
		t, e  string
		bs    uint
		shape string
		size  int
	}{{"TEXT", "NONE", 64 << 20, "wordlist3", 6500000}, {"TEXT", "FPAQ", 8 << 20, "wordlist3", 6000000}, {"TEXT+UTF", "HUFFMAN", 32 << 20, "wordlist", 7000000},
		{"LZ", "NONE", 16 << 20, "farmatch", 9 << 20}, {"ROLZ", "ANS0", 16 << 20, "repeatblocks", 6 << 20}, {"LZP+TEXT", "RANGE", 64 << 20, "wordlist3", 5500000}} {
		if !run.Thorough() && i >= 4 {
			break
		}
		cases = append(cases, &fmtCase{Cfg: kz.Cfg{Transform: cc.t, Entropy: cc.e, BlockSize: cc.bs, Jobs: 1, Checksum: []uint{32, 0}[i%2], Hint: -1}, Shape: cc.shape, Size: cc.size, Seed: S + int64(i), DecJ: uint(1 + i%2)})
	}
	if run.Thorough() {
		for _, t := range []string{"BWT", "BWTS", "LZ", "ROLZ", "TEXT"} {
			cases = append(cases, &fmtCase{Cfg: kz.Cfg{Transform: t, Entropy: "ANS0", BlockSize: 4<<20 + 16, Jobs: 1, Checksum: 32, Hint: -1}, Shape: "text", Size: 5 << 20, Seed: S, DecJ: 3})
		}
	}
	core.ParallelDo(len(cases), 12, func(i int) { check(cases[i]) })
	// (3) hash probes
	nh := 0
	for i := 0; i < run.Pick(3000, 30000); i++ {
		r := core.Derive(S, "c10hash", i)
		buf := make([]byte, r.Intn(300))
		r.Fill(buf)
		seed := uint32(0x4B414E5A)
		if i%5 == 0 {
			seed = uint32(r.U64())
		}
		h1, _ := refhash.NewXXHash32(seed)
		h2, _ := curhash.NewXXHash32(seed)
		g1, _ := refhash.NewXXHash64(uint64(seed))
		g2, _ := curhash.NewXXHash64(uint64(seed))
		if h1.Hash(buf) != h2.Hash(buf) {
			run.Violate("C10 xxhash32-differs", fmt.Sprintf("len=%d seed=%x", len(buf), seed), map[string]any{"len": len(buf), "seed": seed})
		}
		if g1.Hash(buf) != g2.Hash(buf) {
			run.Violate("C10 xxhash64-differs", fmt.Sprintf("len=%d seed=%x", len(buf), seed), map[string]any{"len": len(buf), "seed": seed})
		}
		nh++
	}
	run.Eval(nh)
	run.Count("hash_probes", nh)
	for i := 0; i < 6; i++ {
		run.Sample(cases[(i*7919+1)%len(cases)])
	}
}

func init() { register("C10", "exploration", c10) }

// pickShape draws a data shape, one time in six an exact-alphabet-size one
func pickShape(r *core.Rng) string {
	if r.Intn(6) == 0 {
		return fmt.Sprintf("alpha:%d", []int{1, 2, 6, 7, 8, 9, 16, 32, 63, 64, 65, 128, 255, 256}[r.Intn(14)])
	}
	return gen.Shapes[r.Intn(len(gen.Shapes))]
}
