// Package kz: thin drivers around the kanzi-go stream API (memory sinks/sources, chunked I/O).
package kz

import (
	"bytes"
	"errors"
	"fmt"
	"io"

	kio "github.com/flanglet/kanzi-go/v2/io"
)

// Transforms and Entropies are the canonical codec names
var Transforms = []string{"NONE", "BWT", "BWTS", "LZ", "LZX", "LZP", "RLT", "ZRLT", "MTFT", "RANK", "EXE", "TEXT", "ROLZ", "ROLZX", "SRT", "MM", "UTF", "PACK", "DNA"}
var Entropies = []string{"NONE", "HUFFMAN", "ANS0", "ANS1", "RANGE", "FPAQ", "CM", "TPAQ", "TPAQX"}

// LevelChains are the (transform, entropy) pairs of the CLI levels 0..9
var LevelChains = [][2]string{
	{"NONE", "NONE"}, {"LZX", "NONE"}, {"DNA+LZ", "HUFFMAN"}, {"TEXT+UTF+PACK+MM+LZX", "HUFFMAN"},
	{"TEXT+UTF+EXE+PACK+MM+ROLZ", "NONE"}, {"TEXT+UTF+BWT+RANK+ZRLT", "ANS0"}, {"TEXT+UTF+BWT+SRT+ZRLT", "FPAQ"},
	{"LZP+TEXT+UTF+BWT+LZP", "CM"}, {"EXE+RLT+TEXT+UTF+DNA", "TPAQ"}, {"EXE+RLT+TEXT+UTF+DNA", "TPAQX"},
}

// Heavy reports whether the entropy codec is a slow bit-wise context mixer
func Heavy(entropy string) bool {
	switch entropy {
	case "CM", "TPAQ", "TPAQX", "cm", "tpaq", "tpaqx":
		return true
	}
	return false
}

// Cfg is a compressor configuration
type Cfg struct {
	Transform  string `json:"t"`
	Entropy    string `json:"e"`
	BlockSize  uint   `json:"b"`
	Jobs       uint   `json:"j"`
	Checksum   uint   `json:"c"`
	Hint       int64  `json:"h"` // 0 = absent
	Headerless bool   `json:"hl,omitempty"`
	SkipBlocks bool   `json:"skip,omitempty"` // the -s option: incompressible blocks are stored
}

func (c Cfg) String() string {
	return fmt.Sprintf("%s/%s b=%d j=%d c=%d h=%d hl=%v", c.Transform, c.Entropy, c.BlockSize, c.Jobs, c.Checksum, c.Hint, c.Headerless)
}

// Sink is an in-memory io.WriteCloser
type Sink struct {
	bytes.Buffer
	Closed int
	Writes int
}

func (s *Sink) Write(p []byte) (int, error) { s.Writes++; return s.Buffer.Write(p) }
func (s *Sink) Close() error                { s.Closed++; return nil }

// Source is an in-memory io.ReadCloser delivering data in chunks chosen by Chunk (nil = as asked)
type Source struct {
	Data        []byte
	Pos         int
	Chunk       func(asked int) int // returns max bytes for this call (>=1)
	EOFTogether bool                // return (n, io.EOF) together with the last bytes
	Reads       int
	Closed      int
}

func (s *Source) Read(p []byte) (int, error) {
	s.Reads++
	if len(p) == 0 {
		return 0, nil
	}
	if s.Pos >= len(s.Data) {
		return 0, io.EOF
	}
	n := len(p)
	if s.Chunk != nil {
		if c := s.Chunk(n); c < n && c >= 1 {
			n = c
		}
	}
	if n > len(s.Data)-s.Pos {
		n = len(s.Data) - s.Pos
	}
	copy(p, s.Data[s.Pos:s.Pos+n])
	s.Pos += n
	if s.EOFTogether && s.Pos >= len(s.Data) {
		return n, io.EOF
	}
	return n, nil
}
func (s *Source) Close() error { s.Closed++; return nil }

// ErrPanic wraps a panic that escaped a library call
type ErrPanic struct{ Val any }

func (e *ErrPanic) Error() string { return fmt.Sprintf("PANIC escaped: %v", e.Val) }

// Stage tells where a compression attempt failed
type Stage int

const (
	StageOK Stage = iota
	StageNew
	StageWrite
	StageClose
)

// Compress writes data through a Writer into memory. writeSizes (may be nil) gives the sizes of
// successive Write calls (cycled); nil means one Write. Returns the stream, the failing stage and error.
func Compress(data []byte, c Cfg, writeSizes []int) (out []byte, st Stage, err error) {
	sink := &Sink{}
	defer func() {
		if r := recover(); r != nil {
			err = &ErrPanic{r}
			if st == StageOK {
				st = StageWrite
			}
		}
	}()
	var w *kio.Writer
	var e error
	if c.SkipBlocks {
		w, e = kio.NewWriterWithCtx(sink, map[string]any{"transform": c.Transform, "entropy": c.Entropy, "blockSize": c.BlockSize, "jobs": c.Jobs,
			"checksum": c.Checksum, "fileSize": c.Hint, "headerless": c.Headerless, "skipBlocks": true})
	} else {
		w, e = kio.NewWriter(sink, c.Transform, c.Entropy, c.BlockSize, c.Jobs, c.Checksum, c.Hint, c.Headerless)
	}
	if e != nil {
		return nil, StageNew, e
	}
	st = StageWrite
	if writeSizes == nil {
		n, e := w.Write(data)
		if e != nil {
			return sink.Bytes(), StageWrite, e
		}
		if n != len(data) {
			return sink.Bytes(), StageWrite, fmt.Errorf("short write %d of %d without error", n, len(data))
		}
	} else {
		off, k := 0, 0
		for off < len(data) {
			sz := writeSizes[k%len(writeSizes)]
			k++
			if sz > len(data)-off {
				sz = len(data) - off
			}
			n, e := w.Write(data[off : off+sz])
			if e != nil {
				return sink.Bytes(), StageWrite, e
			}
			if n != sz {
				return sink.Bytes(), StageWrite, fmt.Errorf("short write %d of %d without error", n, sz)
			}
			off += sz
		}
	}
	st = StageClose
	if e := w.Close(); e != nil {
		return sink.Bytes(), StageClose, e
	}
	return sink.Bytes(), StageOK, nil
}

// ReadResult is what a reader loop observed
type ReadResult struct {
	Out      []byte
	Err      error // first non-EOF error (nil if clean EOF)
	EOF      bool  // io.EOF was reached
	Calls    int
	AfterErr []byte // bytes returned by Read calls made after the first error
	AfterEOF bool   // EOF reported by calls after the error
}

// NewReader opens a reader on a stream (header mode unless c != nil && c.Headerless)
func NewReader(src io.ReadCloser, jobs uint, c *Cfg) (*kio.Reader, error) {
	if c != nil && c.Headerless {
		return kio.NewHeaderlessReader(src, jobs, c.Transform, c.Entropy, c.BlockSize, c.Checksum, c.Hint, 6)
	}
	return kio.NewReader(src, jobs)
}

// ReadAll drains r with buffers of the given sizes (cycled; nil = 64 KiB). After the first error it
// keeps calling Read up to `extra` more times to see what later calls return.
func ReadAll(r *kio.Reader, readSizes []int, extra int, limit int) (res ReadResult) {
	defer func() {
		if x := recover(); x != nil {
			res.Err = &ErrPanic{x}
		}
	}()
	if readSizes == nil {
		readSizes = []int{65536}
	}
	maxSz := 0
	for _, s := range readSizes {
		if s > maxSz {
			maxSz = s
		}
	}
	buf := make([]byte, maxSz)
	k := 0
	zeroRun := 0
	for {
		sz := readSizes[k%len(readSizes)]
		k++
		n, err := r.Read(buf[:sz])
		res.Calls++
		if res.Err == nil {
			res.Out = append(res.Out, buf[:n]...)
		} else {
			res.AfterErr = append(res.AfterErr, buf[:n]...)
		}
		if n == 0 && err == nil {
			zeroRun++
			if sz > 0 && zeroRun > 1000 {
				if res.Err == nil {
					res.Err = errors.New("Read keeps returning (0, nil)")
				}
				return
			}
		} else {
			zeroRun = 0
		}
		if err == io.EOF {
			if res.Err == nil {
				res.EOF = true
			} else {
				res.AfterEOF = true
			}
			return
		}
		if err != nil {
			if res.Err == nil {
				res.Err = err
			}
			if extra <= 0 {
				return
			}
			extra--
		}
		if limit > 0 && len(res.Out)+len(res.AfterErr) > limit {
			if res.Err == nil {
				res.Err = errors.New("output exceeds limit")
			}
			return
		}
	}
}

// Decompress reads a whole stream from memory
func Decompress(stream []byte, jobs uint, c *Cfg) ReadResult {
	src := &Source{Data: stream}
	var res ReadResult
	func() {
		defer func() {
			if x := recover(); x != nil {
				res.Err = &ErrPanic{x}
			}
		}()
		r, err := NewReader(src, jobs, c)
		if err != nil {
			res.Err = err
			return
		}
		res = ReadAll(r, nil, 0, 0)
		r.Close()
	}()
	return res
}

// IsPanic tells whether err is an escaped panic
func IsPanic(err error) bool {
	var p *ErrPanic
	return errors.As(err, &p)
}
