package sched

import (
	"fmt"
	"sync"
	"sync/atomic"
	"time"

	kio "github.com/flanglet/kanzi-go/v2/io"
)

// Chooser picks the next task to release among the candidates (sorted by id).
// current = id of the task released last (0 if none / it exited).
type Chooser interface {
	Choose(cands []Cand, current int32) int
}

// Cand is a schedulable task
type Cand struct {
	ID   int32
	Step int // the hook point it is blocked at
}

type tstate struct {
	id        int32
	step      int
	waiting   bool
	dead      bool
	release   chan struct{}
	futileTok int32 // token value seen at the last fruitless spin
	futile    bool
	token     *int32
}

// Controller is the controlled cooperative scheduler
type Controller struct {
	mu       sync.Mutex
	cond     *sync.Cond
	tasks    map[int32]*tstate
	order    []int32
	events   []Event
	seq      int64
	occ      map[uint64]int
	chooser  Chooser
	fault    Fault
	Expected int // tasks per batch (0 = unknown: a short grace period decides)
	stopped  bool
	lastArr  time.Time
	current  int32
	Stuck    bool
	StuckWhy string
	Steps    int
	tokenPtr *int32
	MaxSteps int
	abandon  int32
	// FaultFired tells whether the injected fault was actually raised
	FaultFired bool
	arrived    int // tasks of the current batch that reached their start hook
	// batch announcements (hook H4): the k-th announcement tells how many tasks the k-th batch has
	annSeq   int
	annN     int
	batchIdx int // batches whose first task has registered
	firstArr time.Time
	Batches  int // announcements seen (evidence)
}

func NewController(ch Chooser, fault Fault, expected int) *Controller {
	c := &Controller{tasks: map[int32]*tstate{}, occ: map[uint64]int{}, chooser: ch, fault: fault, Expected: expected, MaxSteps: 200000}
	c.cond = sync.NewCond(&c.mu)
	return c
}

func (c *Controller) hook(side int, id int32, step int, token *int32) {
	if atomic.LoadInt32(&c.abandon) == 1 {
		return
	}
	c.mu.Lock()
	if atomic.LoadInt32(&c.abandon) == 1 {
		c.mu.Unlock()
		return
	}
	t := c.tasks[id]
	if t != nil && t.dead && step == kio.VerifStart {
		t = nil // a new task re-using the id of a finished one (faulty code may do that): track it afresh
	}
	if t == nil {
		t = &tstate{id: id, release: make(chan struct{}, 1), token: token}
		if _, known := c.tasks[id]; !known {
			c.order = append(c.order, id)
		}
		c.tasks[id] = t
		c.lastArr = time.Now()
		if c.firstArr.IsZero() {
			c.firstArr = c.lastArr
		}
		if c.liveCount() == 1 {
			c.arrived = 0 // first task of a new batch
			c.batchIdx++
		}
		c.arrived++
	}
	c.tokenPtr = token
	tok := atomic.LoadInt32(token)
	c.seq++
	key := uint64(uint32(id))<<8 | uint64(step)
	c.occ[key]++
	n := c.occ[key]
	if step != kio.VerifSpin || n <= 3 {
		c.events = append(c.events, Event{Seq: c.seq, Side: side, ID: id, Step: step, Token: tok})
	}
	if step == kio.VerifSpin {
		// came back to the wait loop without getting the token: futile until the token changes
		t.futile = true
		t.futileTok = tok
	} else {
		t.futile = false
	}
	t.step = step
	t.waiting = true
	c.cond.Broadcast()
	c.mu.Unlock()

	<-t.release

	if atomic.LoadInt32(&c.abandon) == 1 {
		return
	}
	if c.fault.Nth > 0 && c.fault.ID == id && c.fault.Step == step && n == c.fault.Nth {
		c.mu.Lock()
		c.FaultFired = true
		c.mu.Unlock()
		panic(InjectedFault{At: fmt.Sprintf("task %d step %s", id, StepName(step))})
	}
}

// batchHook receives the announcement of a batch (called on the API caller's goroutine after the tasks were launched)
func (c *Controller) batchHook(side int, firstID int32, n int, token *int32) {
	c.mu.Lock()
	c.annSeq++
	c.annN = n
	c.Batches++
	c.tokenPtr = token
	c.cond.Broadcast()
	c.mu.Unlock()
}

// batchComplete tells whether every task of the current batch has reached a hook. It is decided from the batch
// announcement alone (no clock): until the announcement for this batch has arrived and that many tasks have
// registered, nothing is scheduled and no verdict is given. legacy == true only on a tree without the batch hook
// (no announcement ever seen 10 s after the first task): then the old grace periods apply.
func (c *Controller) batchComplete() (complete, legacy bool) {
	if c.annSeq == 0 && !c.firstArr.IsZero() && time.Since(c.firstArr) > 10*time.Second {
		return false, true
	}
	return c.annSeq >= c.batchIdx && c.arrived >= c.annN, false
}

// loop is the controller: releases exactly one task at a time
func (c *Controller) loop(done chan struct{}) {
	defer close(done)
	c.mu.Lock()
	defer c.mu.Unlock()
	for {
		// wait for quiescence
		for {
			if c.stopped {
				return
			}
			live, waiting := 0, 0
			for _, t := range c.tasks {
				if !t.dead {
					live++
					if t.waiting {
						waiting++
					}
				}
			}
			if live > 0 && waiting == live {
				complete, legacy := c.batchComplete()
				if complete {
					break
				}
				if legacy {
					if c.Expected <= 0 || c.arrived >= c.Expected || time.Since(c.lastArr) > 5*time.Millisecond {
						break
					}
				}
				// tasks of this batch are still on their way to their first hook (or the announcement is): wait for them
				c.waitTick()
				continue
			}
			if live == 0 || waiting < live {
				// nothing to schedule yet: wait for a hook call (with a tick so that Stop is noticed)
				c.waitTick()
			}
		}
		// candidates
		var cands []Cand
		var tok int32
		if c.tokenPtr != nil {
			tok = atomic.LoadInt32(c.tokenPtr)
		}
		for _, id := range c.order {
			t := c.tasks[id]
			if t.dead || !t.waiting {
				continue
			}
			if t.futile && t.futileTok == tok {
				continue // spinning on an unchanged counter
			}
			cands = append(cands, Cand{ID: id, Step: t.step})
		}
		if _, legacy := c.batchComplete(); legacy && len(cands) == 0 && (c.Expected <= 0 || c.arrived < c.Expected) && time.Since(c.lastArr) < 2*time.Second {
			// (tree without the batch hook) maybe a task of this batch has not reached its first hook yet: not a verdict
			c.mu.Unlock()
			time.Sleep(500 * time.Microsecond)
			c.mu.Lock()
			continue
		}
		if len(cands) == 0 {
			// every live task spins on an unchanged counter: the protocol is dead
			c.Stuck = true
			c.StuckWhy = fmt.Sprintf("all live tasks spin forever on counter=%d: %s", tok, c.describeLive())
			c.forceCancel()
			return
		}
		sortCands(cands)
		k := c.chooser.Choose(cands, c.current)
		if k < 0 || k >= len(cands) {
			k = 0
		}
		t := c.tasks[cands[k].ID]
		c.current = t.id
		t.waiting = false
		if t.step == kio.VerifExit {
			t.dead = true
			c.current = 0
		}
		c.Steps++
		if c.Steps > c.MaxSteps {
			c.Stuck = true
			c.StuckWhy = "step budget exceeded (livelock?)"
			c.forceCancel()
			return
		}
		t.release <- struct{}{}
		// wait until that task blocks again or exits
		for !c.stopped && !t.dead && !t.waiting {
			c.waitTick()
		}
	}
}

func (c *Controller) liveCount() int {
	n := 0
	for _, t := range c.tasks {
		if !t.dead {
			n++
		}
	}
	return n
}

func (c *Controller) batchStarted() bool {
	// once any task of the batch moved beyond "start", late arrivals are just late: do not wait for them
	for _, t := range c.tasks {
		if !t.dead && t.step != kio.VerifStart {
			return true
		}
	}
	return false
}

func (c *Controller) waitTick() {
	// cond.Wait with a watchdog tick so that Stop() is always noticed
	timer := time.AfterFunc(2*time.Millisecond, func() { c.cond.Broadcast() })
	c.cond.Wait()
	timer.Stop()
}

func (c *Controller) describeLive() string {
	s := ""
	for _, id := range c.order {
		t := c.tasks[id]
		if !t.dead {
			s += fmt.Sprintf("[task %d at %s] ", id, StepName(t.step))
		}
	}
	return s
}

// forceCancel ends a dead protocol so that the API call under test can return: hooks stop blocking
// and the cancel value is written into the shared counter. Called with c.mu held.
func (c *Controller) forceCancel() {
	atomic.StoreInt32(&c.abandon, 1)
	if c.tokenPtr != nil {
		atomic.StoreInt32(c.tokenPtr, Cancel)
	}
	for _, t := range c.tasks {
		if !t.dead && t.waiting {
			t.waiting = false
			select {
			case t.release <- struct{}{}:
			default:
			}
		}
	}
}

func sortCands(c []Cand) {
	for i := 1; i < len(c); i++ {
		for j := i; j > 0 && c[j-1].ID > c[j].ID; j-- {
			c[j-1], c[j] = c[j], c[j-1]
		}
	}
}

// Run executes f (the API calls under test) under the controlled scheduler and returns the
// events in execution order.
func (c *Controller) Run(f func()) []Event {
	kio.SetVerifStepHook(c.hook)
	kio.SetVerifBatchHook(c.batchHook)
	defer kio.SetVerifBatchHook(nil)
	done := make(chan struct{})
	fdone := make(chan struct{})
	go c.loop(done)
	go func() {
		// if the controller gave up (dead protocol) while f is still running, keep the cancel value in the
		// shared counter (faulty code may overwrite it) until the API call returns
		select {
		case <-done:
		case <-fdone:
			return
		}
		for {
			select {
			case <-fdone:
				return
			default:
			}
			c.mu.Lock()
			if c.Stuck && c.tokenPtr != nil {
				atomic.StoreInt32(c.tokenPtr, Cancel)
			}
			c.mu.Unlock()
			time.Sleep(100 * time.Microsecond)
		}
	}()
	f()
	close(fdone)
	c.mu.Lock()
	c.stopped = true
	c.cond.Broadcast()
	c.mu.Unlock()
	<-done
	kio.SetVerifStepHook(nil)
	atomic.StoreInt32(&c.abandon, 1)
	c.mu.Lock()
	defer c.mu.Unlock()
	return append([]Event(nil), c.events...)
}

// ---------------------------------------------------------------------------------------------
// Choosers

// Replay follows a fixed list of choice indexes, then a default (run the current task on, else lowest id);
// it records every choice point so that a DFS can backtrack.
type Replay struct {
	Prefix []int
	Trace  []Choice
}

// Choice is one recorded choice point. Alternatives are ranked: rank 0 is the default (let the task that
// ran last continue, else the lowest id), ranks 1.. are the other candidates in increasing id order.
type Choice struct {
	N      int // number of candidates
	Picked int // RANK picked
	CurIdx int // index of the task that ran last among the candidates (-1 if absent)
}

func rankToIdx(rank, def, n int) int {
	if rank <= 0 || n <= 1 {
		return def
	}
	// others in ascending order, skipping def
	idx := rank - 1
	if idx >= def {
		idx++
	}
	if idx >= n {
		idx = n - 1
	}
	return idx
}

func (r *Replay) Choose(cands []Cand, current int32) int {
	cur := -1
	for i, c := range cands {
		if c.ID == current {
			cur = i
		}
	}
	def := 0
	if cur >= 0 {
		def = cur
	}
	rank := 0
	if len(r.Trace) < len(r.Prefix) {
		rank = r.Prefix[len(r.Trace)]
		if rank >= len(cands) {
			rank = len(cands) - 1
		}
	}
	r.Trace = append(r.Trace, Choice{N: len(cands), Picked: rank, CurIdx: cur})
	return rankToIdx(rank, def, len(cands))
}

// NextPrefix computes the next schedule (as a list of ranks) of a depth-first enumeration with at most
// `bound` preemptions (bound < 0: unbounded). Returns nil when the space is exhausted.
func NextPrefix(trace []Choice, bound int) []int {
	pre := make([]int, len(trace)+1) // pre[i] = preemptions in trace[0..i)
	for i, c := range trace {
		pre[i+1] = pre[i]
		if c.CurIdx >= 0 && c.Picked != 0 {
			pre[i+1]++
		}
	}
	for i := len(trace) - 1; i >= 0; i-- {
		alt := trace[i].Picked + 1
		if alt >= trace[i].N {
			continue
		}
		p := pre[i]
		if trace[i].CurIdx >= 0 {
			p++ // any non-default rank preempts the running task
		}
		if bound >= 0 && p > bound {
			continue
		}
		out := make([]int, i+1)
		for j := 0; j < i; j++ {
			out[j] = trace[j].Picked
		}
		out[i] = alt
		return out
	}
	return nil
}

// PCT is a randomized priority scheduler (Burckhardt et al.): random task priorities, d-1 priority
// change points; the candidate with the highest priority runs.
type PCT struct {
	seed    uint64
	prio    map[int32]uint64
	changes map[int]bool
	step    int
}

func NewPCT(seed uint64, depth, horizon int) *PCT {
	p := &PCT{seed: seed, prio: map[int32]uint64{}, changes: map[int]bool{}}
	for i := 0; i < depth-1; i++ {
		p.changes[int(mix(seed, uint64(i), 77)%uint64(max(horizon, 1)))] = true
	}
	return p
}

func (p *PCT) Choose(cands []Cand, current int32) int {
	p.step++
	best, bi := uint64(0), 0
	for i, c := range cands {
		pr, ok := p.prio[c.ID]
		if !ok {
			pr = mix(p.seed, uint64(uint32(c.ID)), 5)>>1 | 1<<62
			p.prio[c.ID] = pr
		}
		if pr >= best {
			best, bi = pr, i
		}
	}
	if p.changes[p.step] {
		// demote the running task below everything else
		p.prio[cands[bi].ID] = uint64(1000 - p.step)
	}
	return bi
}
