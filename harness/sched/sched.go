// Package sched drives the block hand-off protocol of kanzi-go's io package through the
// verif step hook: a controlled cooperative scheduler (exactly one task runs between two hook
// points, so the recorded event sequence IS the execution order), a random perturbator for
// free-running stress, fault injection at a chosen (task, step), and the trace monitors.
package sched

import (
	"fmt"
	"hash/fnv"
	"runtime"
	"sync"
	"sync/atomic"
	"time"

	kio "github.com/flanglet/kanzi-go/v2/io"
)

// Step names (indexes = kio.VerifXxx constants)
var StepNames = []string{"start", "wait-enter", "spin", "acquired", "cancel-seen", "io-begin", "io-end", "eos", "publish", "post-publish", "cancel-stored", "exit"}

func StepName(s int) string {
	if s >= 0 && s < len(StepNames) {
		return StepNames[s]
	}
	return fmt.Sprint(s)
}

const Cancel = int32(-1)

// Event is one observed protocol step
type Event struct {
	Seq   int64 `json:"seq"`
	Side  int   `json:"side"`
	ID    int32 `json:"id"`
	Step  int   `json:"step"`
	Token int32 `json:"token"` // value of the shared counter when the hook was entered
}

func (e Event) String() string { return fmt.Sprintf("%d:%s(tok=%d)", e.ID, StepName(e.Step), e.Token) }

// Fault makes the hook panic at the n-th occurrence of (ID, Step)
type Fault struct {
	ID   int32 `json:"id"`
	Step int   `json:"step"`
	Nth  int   `json:"nth"` // 1-based; 0 = no fault
}

// InjectedFault is the panic value used for injected failures
type InjectedFault struct{ At string }

func (f InjectedFault) Error() string { return "injected task failure at " + f.At }

// Violation found by a trace monitor
type Violation struct {
	Kind   string
	Detail string
}

// ---------------------------------------------------------------------------------------------
// Trace monitor (online automaton over the event sequence)

// Monitor checks the hand-off protocol rules on an ordered event sequence
type Monitor struct {
	inIO        int32 // id of the task inside shared I/O, 0 = none
	lastIO      int32 // id of the last task that began shared I/O
	cancelSeq   int64 // seq of the first cancel-stored of the current batch, 0 = none
	acquired    map[int32]bool
	exited      map[int32]bool
	started     map[int32]bool
	Violations  []Violation
	batchActive int
	Counts      map[string]int
	// Strict: events come from the controlled scheduler (hook order == execution order), so rules relating
	// a load in one task to a store in another may be checked on the sequence itself
	Strict bool
}

func NewMonitor() *Monitor {
	return &Monitor{acquired: map[int32]bool{}, exited: map[int32]bool{}, started: map[int32]bool{}, Counts: map[string]int{}}
}

func (m *Monitor) viol(kind, format string, a ...any) {
	if len(m.Violations) < 20 {
		m.Violations = append(m.Violations, Violation{kind, fmt.Sprintf(format, a...)})
	}
}

// Feed consumes the next event (events must be fed in execution order)
func (m *Monitor) Feed(e Event) {
	m.Counts[StepName(e.Step)]++
	switch e.Step {
	case kio.VerifStart:
		if m.batchActive == 0 {
			// new batch: cancel does not carry over on the trace level (a cancelled stream starts no new batch)
			m.cancelSeq = 0
		}
		m.batchActive++
		m.started[e.ID] = true
	case kio.VerifAcquired:
		if m.Strict && e.Token != e.ID-1 {
			m.viol("acquired-with-wrong-token", "task %d left the wait loop while the counter was %d", e.ID, e.Token)
		}
		if m.Strict && m.cancelSeq != 0 {
			m.viol("acquire-after-cancel", "task %d acquired the token after a cancel had been stored in this batch", e.ID)
		}
		m.acquired[e.ID] = true
	case kio.VerifIOBegin:
		if !m.acquired[e.ID] {
			m.viol("io-without-token", "task %d entered the shared stream without having acquired the token", e.ID)
		}
		if m.inIO != 0 {
			m.viol("mutual-exclusion", "task %d entered the shared stream while task %d was inside", e.ID, m.inIO)
		}
		if e.ID <= m.lastIO {
			m.viol("order", "task %d entered the shared stream after task %d", e.ID, m.lastIO)
		}
		m.inIO = e.ID
		m.lastIO = e.ID
	case kio.VerifIOEnd, kio.VerifEOS:
		if m.inIO == e.ID {
			m.inIO = 0
		}
	case kio.VerifCancelStored:
		if m.cancelSeq == 0 {
			m.cancelSeq = e.Seq + 1
		}
	case kio.VerifExit:
		if m.inIO == e.ID {
			m.inIO = 0 // a task that failed inside the shared section leaves it by exiting
		}
		m.exited[e.ID] = true
		m.batchActive--
	}
}

// Finish checks termination: every started task must have exited
func (m *Monitor) Finish() {
	for id := range m.started {
		if !m.exited[id] {
			m.viol("task-never-exited", "task %d never reached its exit step", id)
		}
	}
}

// ---------------------------------------------------------------------------------------------
// Random perturbator (free running)

// Perturb installs a hook that records events on one logical clock and injects deterministic
// pseudo-random yields/sleeps keyed by (seed, id, step, occurrence). Returns a stop function
// yielding the recorded events (in clock order).
type Perturb struct {
	seed   uint64
	clock  int64
	mu     sync.Mutex
	events []Event
	occ    sync.Map
	fault  Fault
	Level  int // 0: record only, 1: yields, 2: yields + short sleeps
	fired  int32
	// stuck detection (free running): per task last step, token pointer
	last     sync.Map // id -> *int32 (last step)
	tokenPtr atomic.Pointer[int32]
	Stuck    bool
	StuckWhy string
	// latest batch announcement (hook H4): tasks annFirst+1 .. annFirst+annN
	annMu    sync.Mutex
	annFirst int32
	annN     int
	annSeq   int
	Batches  int
}

// FaultFired tells whether the injected fault was raised
func (p *Perturb) FaultFired() bool { return atomic.LoadInt32(&p.fired) == 1 }

func NewPerturb(seed uint64, level int, fault Fault) *Perturb {
	return &Perturb{seed: seed, Level: level, fault: fault}
}

func mix(a uint64, b ...uint64) uint64 {
	h := a*0x9E3779B97F4A7C15 + 0x7F4A7C15
	for _, x := range b {
		h ^= x + 0x9E3779B97F4A7C15 + (h << 6) + (h >> 2)
		h *= 0xBF58476D1CE4E5B9
		h ^= h >> 29
	}
	return h
}

func (p *Perturb) hook(side int, id int32, step int, token *int32) {
	p.tokenPtr.Store(token)
	lv, _ := p.last.LoadOrStore(id, new(int32))
	atomic.StoreInt32(lv.(*int32), int32(step))
	tok := atomic.LoadInt32(token)
	seq := atomic.AddInt64(&p.clock, 1)
	key := uint64(uint32(id))<<8 | uint64(step)
	nv, _ := p.occ.LoadOrStore(key, new(int64))
	n := atomic.AddInt64(nv.(*int64), 1)
	if step != kio.VerifSpin || n <= 4 {
		p.mu.Lock()
		p.events = append(p.events, Event{Seq: seq, Side: side, ID: id, Step: step, Token: tok})
		p.mu.Unlock()
	}
	if p.fault.Nth > 0 && p.fault.ID == id && p.fault.Step == step && int(n) == p.fault.Nth {
		atomic.StoreInt32(&p.fired, 1)
		panic(InjectedFault{At: fmt.Sprintf("task %d step %s", id, StepName(step))})
	}
	if p.Level == 0 {
		return
	}
	r := mix(p.seed, key, uint64(n))
	switch r % 8 {
	case 0, 1, 2:
		runtime.Gosched()
	case 3:
		if p.Level >= 2 && step != kio.VerifSpin {
			time.Sleep(time.Duration(r>>8%200) * time.Microsecond)
		} else {
			runtime.Gosched()
		}
	case 4:
		for i := 0; i < int(r>>8%4); i++ {
			runtime.Gosched()
		}
	}
}

// Run executes f with the perturbing hook installed. A watcher declares the protocol dead on a LOGICAL certificate, not on a
// clock: the current batch has been announced (hook H4), every announced task has registered, every task still alive sits in
// the wait loop, the shared counter is not the cancel value and equals id-1 of no live task - then nobody can ever change the
// counter again. The certificate must hold on 5 consecutive identical samples (the sampling itself is not atomic; the counter
// only moves forward, so a stale sample cannot repeat). It then pumps the cancel value so that the API call can return.
// On a tree without the batch hook the old rule applies (state unchanged for 3 s).
func (p *Perturb) Run(f func()) []Event {
	kio.SetVerifStepHook(p.hook)
	defer kio.SetVerifStepHook(nil)
	kio.SetVerifBatchHook(func(side int, firstID int32, n int, token *int32) {
		p.annMu.Lock()
		p.annFirst, p.annN = firstID, n
		p.annSeq++
		p.Batches++
		p.annMu.Unlock()
	})
	defer kio.SetVerifBatchHook(nil)
	fdone := make(chan struct{})
	go func() {
		var lastSig string
		same := 0
		var since time.Time
		for {
			select {
			case <-fdone:
				return
			case <-time.After(20 * time.Millisecond):
			}
			tp := p.tokenPtr.Load()
			if tp == nil {
				continue
			}
			if p.Stuck {
				atomic.StoreInt32(tp, Cancel)
				continue
			}
			tok := atomic.LoadInt32(tp)
			p.annMu.Lock()
			first, n, seq := p.annFirst, p.annN, p.annSeq
			p.annMu.Unlock()
			live, spinning, canGo := 0, 0, false
			reg := map[int32]bool{}
			sig := fmt.Sprintf("%d|%d|", tok, seq)
			p.last.Range(func(k, v any) bool {
				id := k.(int32)
				st := atomic.LoadInt32(v.(*int32))
				reg[id] = true
				if st != int32(kio.VerifExit) {
					live++
					sig += fmt.Sprintf("%d:%d,", id, st)
					if st == int32(kio.VerifSpin) || st == int32(kio.VerifWaitEnter) {
						spinning++
					}
					if id == tok+1 {
						canGo = true
					}
				}
				return true
			})
			if seq == 0 {
				// no batch hook in this tree: legacy rule
				if live > 0 && live == spinning && sig == lastSig {
					if since.IsZero() {
						since = time.Now()
					} else if time.Since(since) > 3*time.Second {
						p.Stuck = true
						p.StuckWhy = fmt.Sprintf("%d tasks spin on counter=%d which has not changed for 3 s and no other task is alive", live, tok)
					}
				} else {
					since = time.Time{}
				}
				lastSig = sig
				continue
			}
			allReg := true
			for i := 1; i <= n; i++ {
				if !reg[first+int32(i)] {
					allReg = false
				}
			}
			dead := allReg && live > 0 && live == spinning && tok != Cancel && !canGo
			if dead && sig == lastSig {
				same++
			} else {
				same = 0
			}
			lastSig = sig
			if dead && same >= 5 {
				p.Stuck = true
				p.StuckWhy = fmt.Sprintf("all %d tasks of the announced batch (%d..%d) have started, the %d still alive sit in the wait loop, counter=%d is not the cancel value and equals id-1 of none of them", n, first+1, first+int32(n), live, tok)
			}
		}
	}()
	f()
	close(fdone)
	p.mu.Lock()
	defer p.mu.Unlock()
	ev := append([]Event(nil), p.events...)
	// events were appended under the lock but Seq was taken before: sort by Seq
	sortEvents(ev)
	return ev
}

func sortEvents(ev []Event) {
	// insertion sort is fine: nearly sorted
	for i := 1; i < len(ev); i++ {
		for j := i; j > 0 && ev[j-1].Seq > ev[j].Seq; j-- {
			ev[j-1], ev[j] = ev[j], ev[j-1]
		}
	}
}

// OrderHash identifies a hand-off interleaving: the order of the non-spin events
func OrderHash(ev []Event) uint64 {
	h := fnv.New64a()
	for _, e := range ev {
		if e.Step == kio.VerifSpin {
			continue
		}
		fmt.Fprintf(h, "%d.%d,", e.ID, e.Step)
	}
	return h.Sum64()
}
