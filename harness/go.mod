module verifharness

go 1.24

require (
	github.com/anishathalye/porcupine v1.3.0
	github.com/flanglet/kanzi-go/v2 v2.0.0
	kanziref/v2 v2.0.0
)

replace github.com/flanglet/kanzi-go/v2 => /repo/v2

replace kanziref/v2 => ../ref/v2
