#!/bin/bash
# usage: sweep.sh "<seeds>" "<ids>" [tier]  -- runs checks at several VERIF_SEED values with evidence redirected to a scratch dir
VERIF_ROOT=${VERIF_ROOT:-$(cd "$(dirname "$0")/.." && pwd)}; export VERIF_ROOT
export VERIF_EVIDENCE_DIR=$(mktemp -d /tmp/sweep-ev.XXXXXX)
for s in $1; do for id in $2; do
  out=$(VERIF_SEED=$s "$VERIF_ROOT/bin/check" $id ${3:-quick} 2>&1)
  rc=$?
  echo "seed=$s rc=$rc $(echo "$out" | tail -1)"
  if [ $rc -ne 0 ]; then echo "$out" | grep -E "VIOLATION|signature|what:|INCONCL" | cut -c1-400 | head -12; fi
done; done
rm -rf "$VERIF_EVIDENCE_DIR"
