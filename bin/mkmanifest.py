#!/usr/bin/env python3
"""Generates /verif/MANIFEST.json from the table below (single source of truth for what is claimed)."""
import json, subprocess, sys

ALL = ["C%02d" % i for i in range(1, 20)]

# id -> (level category, technique, level text, level note, design ref)
CHECKS = {
 "C19": ("fault_enumeration", "process-level monitor: the built CLI run in scratch trees with a file-system oracle (content hashes, inodes, mtimes), strace syscall injection of SIGKILL at the entry of / right after the N-th write, close, unlinkat, openat per thread, and an offline ordering check over the syscall trace",
         "The v2/app binary is built from the working tree. 16 (quick) / 200 (thorough) random trees x levels 0-9 and explicit option sets are round-tripped in place with --rm, dir->dir with -f, file->file and stdin->stdout (exit status 0, identical bytes, tool streams also decoded by the library); existing outputs must survive runs without -f and outputs aliasing the input are refused; inputs keep content/inode/mtime. Kill safety: for compress --rm and decompress --rm runs the process is killed at the entry of the N-th syscall (signal injection) and right after the N-th syscall returned (delay_exit + SIGKILL) for N = 1..max; afterwards every source must exist intact or its output must decode to it. The traced fault-free runs must show each unlink after the last write to the corresponding output.",
         "Kill points at system-call granularity; power-loss durability is out of scope. The 'when=N' counter of strace is per thread, so the oracle never depends on which thread was hit.", "DESIGN.md §3 C19"),
 "C03": ("exploration", "process monitor over structure-aware hostile inputs: child-process exit status, escaped panics, CPU-time budget with isolated re-run, recovered-panic hook",
         "About 4 300 (quick) / 85 000 (thorough) inputs derived from valid seed streams of every transform and entropy codec through the independent container code - header fields with the header check recomputed, forged length prefixes / widths, mode byte, skip flags, stored length, codec headers (incl. every BWT primary index of > 4 MiB blocks), payload damage, truncation, duplicated / dropped / swapped blocks, oversized copy blocks under a small declared size, garbage - are decoded in child processes with jobs 1..8. Oracle: the child survives, no panic escapes Read, and the CPU budget (60 s, isolated re-run 240 s) is not exceeded twice. The recover hook counts the decoder's swallowed panics per site (about 1 000 per quick run) as evidence that the defences were exercised.",
         "'Bounded by the declared block sizes' is restated as a CPU budget; gigabyte-sized forged declarations run only in the serial thorough batch; allocations up to declared sizes are legitimate.", "DESIGN.md §3 C03"),
 "C10": ("exploration", "runtime monitor: differential oracle between two code histories linked into one binary (vendored reference snapshot vs current tree) + golden corpus written once by the reference encoder",
         "kanziref/v2 (snapshot of the pinned commit, under /verif/ref) and the current tree are linked into the same binary. 89 corpus streams written by the reference encoder (every transform, every entropy codec, checksum 0/32/64, hint, small blocks, headerless, > 4 MiB BWT, long runs / long distances) must decode with the current Reader (jobs 1 and 3) to their recorded SHA-256; 600 (quick) / 20 000 (thorough) generated (config, data) pairs on which the reference round-trips must satisfy current.Read(reference.Write(x)) == x; XXHash32/64 are compared on 3 000 random buffers.",
         "Only bitstream version 6 as written by the snapshot; pairs on which the reference itself fails are skipped (counted in the evidence).", "DESIGN.md §3 C10"),
 "C18": ("exploration", "race detector (go build -race) over concurrent multi-pipeline stress with hook-perturbed scheduling and varied GOMAXPROCS; race log parsed, de-duplicated and attributed; outputs compared with isolated runs",
         "The harness and /repo/v2 are built with -race -tags verif. 50 pipelines covering all 19 transforms and 9 entropy codecs, jobs 1..16, a > 4 MiB BWT block decoded with several jobs (parallel inverse BWT), listeners with verbosity 5, several UTF/TEXT pipelines side by side, run 16 at a time for 2 (quick) / 8 (thorough) rounds with GOMAXPROCS alternating between all CPUs, 4 and 2, yields/sleeps injected at the hand-off hooks; then 38 cold-start processes (one per transform, entropy codec and level chain) in which the FIRST use of the codec is made by 4 goroutines at once (lazy initialisers, pools), with expected streams computed by the parent. Decoders also run with block ranges and on damaged streams (error / cancel paths). A structural monitor on the write-range hook of the parallel inverse BWT checks that the workers of one inverse write pairwise disjoint output ranges (a same-value double write is a race the detector almost never reports). Every stream and decoded output is compared with the isolated run; GORACE halt_on_error=0 log is parsed and any report with a frame in kanzi-go/v2 is a violation.",
         "The race detector sees executed interleavings only.", "DESIGN.md §3 C18"),
 "C04": ("exploration", "runtime monitor: byte-equality oracle at the sink across job counts, Write partitions and hook-driven schedules (random yields/sleeps and controlled PCT priority schedules)",
         "For 11 configurations (incl. the CLI level chains that consult per-block data-type hints, BWT, ROLZX, TPAQ, CM) and multi-batch inputs whose blocks have heterogeneous content, the sink bytes of every variant - jobs 2..64, four Write partitions, 4 hint modes, schedules none/free/PCT - are compared with the jobs=1 single-Write run. About 660 (quick) / 8 000 (thorough) variant runs; evidence reports the number of distinct hand-off orders observed. Exploration: schedules are sampled.",
         "Interleavings inside a codec are left to the Go scheduler (tasks are sequential except the inverse BWT).", "DESIGN.md §3 C04"),
 "C05": ("exploration", "runtime monitor: API-boundary oracle (equality / prefix-of-original incl. reads after an error) + the C07 trace automaton, under controlled (bounded DFS, PCT) and randomly perturbed decode schedules; porcupine on free-running histories",
         "Valid streams (6 codec pairs, 1..130 blocks incl. > 63, partial last batch, with/without hint) are decoded with jobs {1,2,3,4,8,64} under PCT and perturbed schedules and must equal the original; streams whose block k is damaged / has a forged stored length are decoded while the controller places the neighbours before their wait, spinning, inside the shared read or past their publish: everything returned, also after the error, must be a prefix of the original and the failure must be reported. About 11 000 (quick) executions.",
         "Same trusted base as C07.", "DESIGN.md §3 C05"),
 "C07": ("exploration", "runtime monitor: controlled cooperative scheduler on the protocol step hook (exhaustive DFS for 2 tasks, preemption-bounded DFS for 3-4, PCT for 5-16) with an online trace automaton and logical stuck detection; fault injection at every (task, step); offline porcupine linearizability check of free-running histories against a ticket-lock-with-cancel model",
         "The step hook blocks every block task at every protocol step (also each spin iteration) and a controller releases exactly one task at a time, so the recorded event order is the execution order of the protocol steps. All interleavings of one batch of 2 tasks are enumerated (both sides: no fault, every (task, step) injected failure, damaged / forged blocks, end-of-stream and skipped-block outcomes); 3-4 tasks with preemption bound 1-2, 5-16 tasks with PCT; sink failures inside the shared section. The automaton checks mutual exclusion, increasing block order, the counter value at acquisition, no acquisition after a cancel, every task exits (deadlock = the batch announced through the batch hook has fully started, every live task sits in the wait loop and the counter can satisfy none of them - a logical certificate, no clocks, in controlled and in free-running mode), and that a failed task makes the API call that encloses its batch return an error (encode side: the very Write or Close call; decode side: some Read call). 400 free-running histories with random yields are checked with porcupine. Exhaustive only for the 2-task single-batch scenarios listed in the evidence.",
         "Atomicity is at hook-step granularity in controlled mode. Trusts harness/sched (scheduler, monitor, ~600 lines) and the 12 step-hook call sites + 2 batch-announcement call sites in v2/io/CompressedStream.go.", "DESIGN.md §3 C07"),
 "C02": ("exploration", "runtime monitor: prefix oracle over ALL bytes returned (also after an error) on streams damaged only inside block payloads located by the independent container parser",
         "13 checksummed streams (codec pairs, checksum 32/64, headerless, 1 MiB blocks) are damaged inside block payloads only: every payload bit of two small NONE/NONE streams (exhaustive), plus ~150 (quick) random bit flips / byte substitutions / swaps / zeroed runs per stream, in one or several blocks, biased to the in-block header, the stored checksum and the last bytes; stored checksums are also exchanged between blocks (content differs from what was hashed). The reader (jobs 1-4, varying buffer sizes) keeps calling Read up to 64 times after the first error; the concatenation of everything returned must be a prefix of the original and clean EOF implies equality.",
         "32-bit checksums legitimately pass 2^-32 of random damage (< 10^-4 per run). Whole self-consistent payloads exchanged between blocks are not generated (the format hashes content only).", "DESIGN.md §3 C02"),
 "C06": ("exploration", "runtime monitor: differential oracle (chunked vs all-at-once I/O) at the stream API and lock-step bit-vector model over chunked sources at the bitstream API",
         "The same valid streams are decoded through io.Readers delivering short reads (fixed 1..262145-byte chunks, random sizes, pipe-like, data+EOF together), with arbitrary Read buffer length sequences (incl. 0/1), and the same data is written with arbitrary Write partitions; results must equal the all-at-once run byte for byte. 4 000 (quick) bit-level programs are replayed on DefaultInputBitStream over chunked sources against the bit-vector model. Tool level: the built binary decodes the same archive file->file, file->pipe and from a pipe fed in pieces of 333..65536 bytes, for block size x jobs combinations whose batches do / do not end on its 32 KiB read size; every way must restore the original with exit 0. Exploration over sampled partitions.",
         "Sources obey the io.Reader contract and never return (0, nil).", "DESIGN.md §3 C06"),
 "C08": ("fault_enumeration", "runtime monitor: fault-injecting io.WriteCloser / io.ReadCloser, fault index enumerated exhaustively over the calls of the fault-free run",
         "For each recipe x job count the fault-free run counts the sink Write / Close and source Read calls; the fault is then injected at every call index k = 1..N in modes transient, transient+retry-Close, sticky, sticky with a client that keeps writing, partial write, error-with-data; the source side is enumerated again with short-read sources and with six block-range variants per recipe (faults while skipped blocks are consumed). Oracle: an injected fault surfaces as a non-nil error of some call, no panic escapes, Close == nil implies the sink decodes to exactly the accepted bytes, Read output is always a prefix of the original and clean EOF implies completeness. Exhaustive over k for the listed recipes, which include streams whose end marker lands exactly on the bitstream flush threshold.",
         "A source failure on a read-ahead issued after every byte was delivered (complete, correct data then EOF) is counted but not treated as a swallowed error.", "DESIGN.md §3 C08"),
 "C09": ("exploration", "runtime monitor: result oracle over every cut position of small valid streams (exhaustive over cuts) and boundary-focused cuts of large ones",
         "17 small streams (empty input, sub-16-byte blocks, multi-block, checksum 0/32/64, headerless, hinted) are cut at every byte position 0..len-1 and decoded with jobs 1 and 3 (about 135 000 decodes); 3 large streams are cut around every block boundary computed by the independent container parser and at random positions; 4 (quick) / 6 streams of 130-260 small blocks are cut -1..+9 bytes around every block header (all 64 alignments of a header inside a 64-bit word are observed and counted in the evidence). Reading must end with an error, never clean EOF.",
         "Exhaustive only over the cut positions of the listed streams; the set of streams is a sample.", "DESIGN.md §3 C09"),
 "C11": ("exploration", "runtime monitor: slice oracle over all block ranges of small streams, with the payloads of skipped blocks corrupted",
         "For streams of 1..12 blocks (partial last block, with/without hint, 5 codec pairs) every range 1 <= from <= to <= nb+3, from-only and to-only, is decoded with decoder jobs {1,2,3,4,8,64}; in half of the cases every block outside the range has its payload and stored checksum damaged (length prefix intact), so decoding a skipped block would surface; the source hands the stream over at once or in short reads of 7..1021 bytes, and three streams exceed the 256 KiB input buffer several times (refills inside skipped blocks). Oracle: bytes == orig[(from-1)*B : min((to-1)*B, len)], no error.",
         "Exhaustive over ranges for the listed streams only.", "DESIGN.md §3 C11"),
 "C15": ("exploration", "runtime monitor: exhaustive name<->type round trip + byte-equality of streams written with spelling variants + cross-decoding with the vendored reference (header types name the variants really used)",
         "GetName(GetType(x)) is compared with the canonical name for all chains of length <= 3 over the 19 transform names and the 9 entropy names in 4 spellings (exhaustive, ~30 000 lookups); every spelling variant of every single codec, of variant-bearing pairs and of random chains <= 8 with NONE fillers must give the byte-identical stream as the upper-case spelling and round-trip through NewReader / NewHeaderlessReader on data that exercises the variant-specific code. Variant actually used: for every ordered pair of transforms and every triple over the families whose variant is chosen through the shared parameter map (lz, sbrt, pack/dna, rolz, text, ~1 000 chains) the stream written by the current tree must be decoded to the original by the vendored reference decoder and vice versa.",
         "Stream equality is judged against the canonical spelling on the same tree (the property is an equality of two runs).", "DESIGN.md §3 C15"),
 "C17": ("exploration", "runtime monitor: reference state machine stepped alongside random Writer/Reader call programs",
         "3 000 (quick) / 40 000 (thorough) random call programs (Write/Read with lengths 0, 1, B-1, B, B+1, jobs*B ..., Close repeated at any point, GetWritten/GetRead, listeners) are executed step by step against a 40-line model: Close idempotent, calls after Close fail without side effects, counters monotone, GetWritten == sink bytes after Close, final stream decodes to exactly the accepted bytes, empty Writer gives a valid empty stream.",
         "Healthy in-memory sink/source only (faults are C08).", "DESIGN.md §3 C17"),
 "C01": ("exploration", "runtime monitor: round-trip oracle at the stream API in isolated child processes + independent container parser + recovered-panic and NormalizeFrequencies hooks",
         "About 2 500 (quick) / 40 000 (thorough) generated (configuration, data shape, size, hint mode, Write partition, decoder job count) cases are pushed through the real Writer and Reader in child processes; the oracle is bytes-in == bytes-out followed by io.EOF, no error after construction, and an independent parse of the produced container (block count, header fields, end marker). The recover hook names the faulting function of any swallowed panic; the normalize hook checks every histogram the codecs produce in situ. Exploration: the input/config space is sampled with a covering design, not enumerated.",
         "Trusts harness/container (independent parser), harness/gen, and the hook files v2/io/verif_on.go, v2/entropy/verif_on.go. Largest block run: 4 MiB+16 quick, 160 MiB thorough; 1 GiB blocks are not run.", "DESIGN.md §3 C01"),
 "C12": ("exploration", "runtime monitor: result + bit-consumption oracle (sentinel, Written()/Read() counters) on the entropy codec API; in-situ NormalizeFrequencies hook",
         "Each of the 9 entropy codecs encodes generated blocks (lengths 0..4 MiB+1 straddling every chunk size, the 64 MiB chunking threshold of the bit-wise coders (2^26-1, 2^26, 2^26+9), 17 shapes incl. the frequency-scaling stress families) into a real bitstream after a byte-aligned prefix, followed by a 64-bit sentinel; decoding must return the block, consume exactly the bits written and leave the sentinel readable; a second codec instance is run back-to-back in the same bitstream. Exploration over sampled blocks.",
         "Context map built like the stream layer's (entropy, blockSize, size, bsVersion 6). Heavy coders capped at 20 KB (quick) / 1 MiB (thorough) except for the 64 MiB threshold cases (CM in quick, all three in thorough).", "DESIGN.md §3 C12"),
 "C13": ("exploration", "runtime monitor: forward/inverse oracle with pipeline-faithful buffers and contexts, in isolated child processes (panic site attribution)",
         "Each of the 19 transforms runs Forward on generated blocks with the parameter map the Writer builds - fresh, after the block-magic hint, or after a real earlier stage ran on the same map - into a destination of exactly MaxEncodedLen (or with slack); the monitor checks no fault, output <= MaxEncodedLen, input untouched on decline, and Inverse into the decompressor's buffer size (for the tightest legal block size, and for block sizes 2..200 times the block: a short last block) restores the block. Children isolate faults from helper goroutines. Exploration over ~15 000 (quick) calls.",
         "Data-type hints are produced only by real stages or by the magic classification re-implemented from internal/Magic.go; internal.DataType values are built by reflection from a leaked value.", "DESIGN.md §3 C13"),
 "C16": ("exploration", "runtime monitor: post-condition oracle on direct calls (exhaustive small histograms + directed families + random) and in-situ hook",
         "entropy.NormalizeFrequencies is called on all histograms with <= 3 present symbols and counts <= 24 (quick) / 40 (thorough) x 9 scales (exhaustive part), on directed k-rare + m-dominant / flat / ramp families and on 10^5 (quick) / 2x10^6 (thorough) random histograms; the oracle checks sum == scale, present symbols > 0, absent == 0, returned size and increasing alphabet. Exploration (the exhaustive part covers only the small-alphabet sub-space).",
         "Histograms satisfy the function's contract (totalFreq == sum, total <= 2^27).", "DESIGN.md §3 C16"),
 "C14": ("exploration", "runtime monitor: lock-step reference model (bit vector) over generated operation programs",
         "Every program (systematic sweep of alignment x array length x distance to the flush boundary x buffer size, plus random programs) is executed on the real DefaultOutputBitStream/DefaultInputBitStream while a trivially correct bit-vector model is stepped alongside; sink image, Written()/Read() after every step, read-back values (mirrored and re-segmented) and refusal after Close are compared. Held = no deviation on the programs run; it is sampling of an infinite program space, hence exploration.",
         "Trusts the 40-line bit-vector model in harness/container (Bits.Put/Get) and full-read sources (short reads are C06).", "DESIGN.md §3 C14"),
}

NOT_BUILT_REASON = "check not built yet in this revision of /verif (runtime monitor planned in DESIGN.md §3); not claimed until it runs silent on the unchanged tree"

def hook_commits():
    try:
        out = subprocess.run(["git", "-C", "/repo", "log", "--format=%H %s"], capture_output=True, text=True).stdout
        return [l.split()[0] for l in out.splitlines() if " verif hooks" in l or l.split(" ",1)[1].startswith("verif hook")]
    except Exception:
        return []

def main():
    checks = []
    for cid in ALL:
        if cid not in CHECKS: continue
        cat, tech, text, note, ref = CHECKS[cid]
        checks.append({
            "property_id": cid,
            "quick_cmd": f"bin/check {cid} quick",
            "thorough_cmd": f"bin/check {cid} thorough",
            "evidence_file": f"/verif/evidence/{cid}.json",
            "replay_cmd_template": f"bin/check {cid} --replay {{path}}",
            "engine": "vcheck",
            "level_claimed": {"category": cat, "text": text, "design_ref": ref},
            "level_note": note,
            "technique": tech,
        })
    m = {
        "version": 1,
        "setup_cmd": "bin/setup",
        "hooks": {
            "guard": "verif",
            "enable": "go build -tags verif (bin/check builds harness/cmd/vcheck with -tags verif; /repo/v2 is compiled into it through the go.mod replace directive, from the current working tree)",
            "baseline_off_cmd": "bin/baseline_off.sh",
            "source_commits": hook_commits(),
            "add_only": True,
        },
        "engines": [
            {"name": "vcheck", "path": "/verif/harness/cmd/vcheck", "serves_properties": sorted(CHECKS.keys()),
             "kind_free_text": "Go harness linked against /repo/v2 (build tag verif): workload generators, reference-model monitors, trace monitors on the protocol hooks, child-process runners; race-detector build for C18"},
        ],
        "checks": checks,
        "not_applicable": [{"property_id": c, "reason": NOT_BUILT_REASON} for c in ALL if c not in CHECKS],
        "notes": "Technique family: runtime monitoring and sanitizers. Every check rebuilds the harness against /repo's working tree and decides its property by observing executions of the real code. Known findings: /verif/known_findings.json.",
    }
    json.dump(m, open("/verif/MANIFEST.json", "w"), indent=1)
    print("MANIFEST.json written:", len(checks), "checks")

main()
