#!/usr/bin/env python3
"""Generates /verif/MANIFEST.json from the table below (single source of truth for what is claimed)."""
import json, subprocess, sys

ALL = ["C%02d" % i for i in range(1, 20)]

# id -> (level category, technique, level text, level note, design ref)
CHECKS = {
 "C14": ("exploration", "runtime monitor: lock-step reference model (bit vector) over generated operation programs",
         "Every program (systematic sweep of alignment x array length x distance to the flush boundary x buffer size, plus random programs) is executed on the real DefaultOutputBitStream/DefaultInputBitStream while a trivially correct bit-vector model is stepped alongside; sink image, Written()/Read() after every step, read-back values (mirrored and re-segmented) and refusal after Close are compared. Held = no deviation on the programs run; it is sampling of an infinite program space, hence exploration.",
         "Trusts the 40-line bit-vector model in harness/container (Bits.Put/Get) and full-read sources (short reads are C06).", "DESIGN.md §3 C14"),
}

NOT_BUILT_REASON = "check not built yet in this revision of /verif (runtime monitor planned in DESIGN.md §3); not claimed until it runs silent on the unchanged tree"

def hook_commits():
    try:
        out = subprocess.run(["git", "-C", "/repo", "log", "--format=%H %s"], capture_output=True, text=True).stdout
        return [l.split()[0] for l in out.splitlines() if " verif hooks" in l or l.split(" ",1)[1].startswith("verif hook")]
    except Exception:
        return []

def main():
    checks = []
    for cid in ALL:
        if cid not in CHECKS: continue
        cat, tech, text, note, ref = CHECKS[cid]
        checks.append({
            "property_id": cid,
            "quick_cmd": f"bin/check {cid} quick",
            "thorough_cmd": f"bin/check {cid} thorough",
            "evidence_file": f"/verif/evidence/{cid}.json",
            "replay_cmd_template": f"bin/check {cid} --replay {{path}}",
            "engine": "vcheck",
            "level_claimed": {"category": cat, "text": text, "design_ref": ref},
            "level_note": note,
            "technique": tech,
        })
    m = {
        "version": 1,
        "setup_cmd": "bin/setup",
        "hooks": {
            "guard": "verif",
            "enable": "go build -tags verif (bin/check builds harness/cmd/vcheck with -tags verif; /repo/v2 is compiled into it through the go.mod replace directive, from the current working tree)",
            "baseline_off_cmd": "bin/baseline_off.sh",
            "source_commits": hook_commits(),
            "add_only": True,
        },
        "engines": [
            {"name": "vcheck", "path": "/verif/harness/cmd/vcheck", "serves_properties": sorted(CHECKS.keys()),
             "kind_free_text": "Go harness linked against /repo/v2 (build tag verif): workload generators, reference-model monitors, trace monitors on the protocol hooks, child-process runners; race-detector build for C18"},
        ],
        "checks": checks,
        "not_applicable": [{"property_id": c, "reason": NOT_BUILT_REASON} for c in ALL if c not in CHECKS],
        "notes": "Technique family: runtime monitoring and sanitizers. Every check rebuilds the harness against /repo's working tree and decides its property by observing executions of the real code. Known findings: /verif/known_findings.json.",
    }
    json.dump(m, open("/verif/MANIFEST.json", "w"), indent=1)
    print("MANIFEST.json written:", len(checks), "checks")

main()
