#!/usr/bin/env python3
"""keep_seed.py <name> <outdir> <property> <demo_pkg> <needs> <caught_by> [status]
Copies a confirmed seeded change into /verif/seeded/<name>/ with meta.json."""
import sys, json, shutil, os
name,out,prop,pkg,needs,caught=sys.argv[1:7]
status=sys.argv[7] if len(sys.argv)>7 else "confirmed"
d=f"/verif/seeded/{name}"
os.makedirs(d,exist_ok=True)
for f in ("patch.diff","demo_test.go","notes.md"):
    if os.path.exists(f"{out}/{f}"): shutil.copy(f"{out}/{f}",f"{d}/{f}")
if os.path.isdir(f"{out}/demo"): shutil.copytree(f"{out}/demo",f"{d}/demo",dirs_exist_ok=True)
meta={"name":name,"breaks_property":prop,"needs_to_manifest":needs,"demo":{"file":"demo_test.go","place_in":f"v2/{pkg}"},
 "confirmed_by_me":["patch applies to the clean tree","go build -tags verif ok","existing suite passes with the change","demo fails with the change","demo passes without the change"],
 "how_confirmed":"bin/verify_seed.sh in the sub-agent's scratch worktree under /tmp (removed afterwards)",
 "detected_by":caught,"status":status}
json.dump(meta,open(f"{d}/meta.json","w"),indent=1)
print("kept",d)
