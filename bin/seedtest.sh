#!/bin/bash
# usage: seedtest.sh <patch.diff> <check-id> [<check-id>...]   (env TIER=quick|thorough)
# Applies a seeded change to /repo, runs the given checks, and ALWAYS reverts /repo afterwards.
P=$1; shift
cd /repo || exit 1
if [ -n "$(git status --porcelain)" ]; then echo "/repo not clean"; exit 1; fi
git apply $P || { echo "patch does not apply"; exit 1; }
trap 'git -C /repo reset -q --hard HEAD ; git -C /repo clean -fdq; [ -n "$VERIF_EVIDENCE_DIR" ] && rm -rf "$VERIF_EVIDENCE_DIR"' EXIT
export VERIF_EVIDENCE_DIR=$(mktemp -d /tmp/seedtest-ev.XXXXXX)
for id in "$@"; do
  echo "=== $id on seeded tree"
  VERIF_ROOT=/verif /verif/bin/check $id ${TIER:-quick} 2>&1 | grep -E "^VIOLATION|signature:|^C[0-9]+ |KNOWN|INCONCL|BUILD" | sort | uniq -c | sort -rn | head -${LINES_MAX:-8}
done
