#!/bin/bash
# usage: seedtest.sh <patch.diff> <check-id> [<check-id>...]   (env TIER=quick|thorough, LINES_MAX)
# Applies a seeded change to a SCRATCH worktree of /repo (never to /repo itself), runs the given checks against it
# (REPO_ROOT override, evidence redirected to a scratch dir) and removes the worktree.
VERIF_ROOT=${VERIF_ROOT:-$(cd "$(dirname "$0")/.." && pwd)}; export VERIF_ROOT
P=$(readlink -f "$1"); shift
WT=$(mktemp -d /tmp/seedtest-wt.XXXXXX)
git -C /repo worktree add -q --detach $WT HEAD || exit 1
export VERIF_EVIDENCE_DIR=$(mktemp -d /tmp/seedtest-ev.XXXXXX)
trap 'rm -rf "$VERIF_ROOT/.work/mod-$(echo "$WT" | md5sum | cut -c1-10)"; git -C /repo worktree remove --force $WT 2>/dev/null; rm -rf "$VERIF_EVIDENCE_DIR" $WT' EXIT
(cd $WT && (git apply "$P" || git apply -3 "$P")) || { echo "patch does not apply"; exit 1; }
export REPO_ROOT=$WT
for id in "$@"; do
  echo "=== $id on seeded tree"
  "$VERIF_ROOT/bin/check" $id ${TIER:-quick} 2>&1 | grep -E "^VIOLATION|signature:|^C[0-9]+ |KNOWN|INCONCL|BUILD" | sort | uniq -c | sort -rn | head -${LINES_MAX:-8}
done
