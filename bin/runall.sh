#!/bin/bash
# usage: runall.sh [quick|thorough] [ids...]   -- runs the checks one after the other, prints one line per check
VERIF_ROOT=${VERIF_ROOT:-$(cd "$(dirname "$0")/.." && pwd)}; export VERIF_ROOT
tier=${1:-quick}; shift
ids=${@:-C01 C02 C03 C04 C05 C06 C07 C08 C09 C10 C11 C12 C13 C14 C15 C16 C17 C18 C19}
fail=0
for id in $ids; do
  out=$("$VERIF_ROOT/bin/check" $id $tier 2>&1); rc=$?
  echo "rc=$rc $(echo "$out" | tail -1)"
  if [ $rc -ne 0 ]; then fail=1; echo "$out" | grep -E "VIOLATION|signature|what:|INCONCL|KNOWN" | cut -c1-300 | head -10; fi
done
exit $fail
