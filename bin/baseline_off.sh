#!/bin/bash
# Runs the repository's own test suite with the verif guard OFF (no -tags) and
# compares the set of passing tests with BASELINE.json's stable_pass list.
VERIF_ROOT=${VERIF_ROOT:-$(cd "$(dirname "$0")/.." && pwd)}; export VERIF_ROOT
. "$VERIF_ROOT/bin/env.sh"
out=$(mktemp)
rc=0
for m in . ./v2; do
  (cd $REPO_ROOT/$m && $GO test -json -vet=off -count=1 -timeout 25m ./...) >>"$out" 2>&1 || rc=1
done
python3 - "$out" <<'PY'
import json,sys
passed=set(); failed=set()
for line in open(sys.argv[1]):
    try: e=json.loads(line)
    except Exception: continue
    if e.get('Test') and e.get('Action') in('pass','fail'):
        (passed if e['Action']=='pass' else failed).add(e['Package']+'::'+e['Test'])
try:
    base=set(json.load(open('/root/.vp/BASELINE.json'))['stable_pass'])
except Exception:
    base=None
print(f"passed={len(passed)} failed={len(failed)}")
for f in sorted(failed): print("FAILED",f)
if base is not None:
    miss=sorted(base-passed)
    print(f"baseline={len(base)} missing={len(miss)}")
    for m in miss[:20]: print("MISSING",m)
    sys.exit(1 if (miss or failed) else 0)
sys.exit(1 if failed else 0)
PY
r=$?
rm -f "$out"
exit $r
