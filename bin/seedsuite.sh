#!/bin/bash
# Self-test of the machinery: applies every kept seeded change to /repo in turn and verifies that the check(s) named in
# its meta.json report a VIOLATION (exit 1). /repo must be clean; it is reset after every seed. Usage: seedsuite.sh [name-glob]
VERIF_ROOT=${VERIF_ROOT:-$(cd "$(dirname "$0")/.." && pwd)}; export VERIF_ROOT
cd /repo || exit 1
[ -z "$(git status --porcelain)" ] || { echo "/repo not clean"; exit 1; }
export VERIF_EVIDENCE_DIR=$(mktemp -d /tmp/seedsuite-ev.XXXXXX)
trap 'git -C /repo reset -q --hard HEAD; git -C /repo clean -fdq; rm -rf "$VERIF_EVIDENCE_DIR"' EXIT
miss=0
for d in $VERIF_ROOT/seeded/${1:-*}/; do
  name=$(basename $d)
  checks=$(python3 -c "import json;print(' '.join(json.load(open('$d/meta.json')).get('checks',[])))")
  git apply $d/patch.diff 2>/dev/null || git apply -3 $d/patch.diff 2>/dev/null || { echo "SKIP $name: patch does not apply to the current tree"; git reset -q --hard HEAD; continue; }
  for id in $checks; do
    out=$(timeout 2400 "$VERIF_ROOT/bin/check" $id quick 2>&1); rc=$?
    nv=$(echo "$out" | grep -c "^VIOLATION")
    if [ $rc -eq 1 ] && [ $nv -gt 0 ]; then echo "CAUGHT $name by $id ($nv violation lines)"; else echo "MISSED $name by $id (rc=$rc)"; miss=1; fi
  done
  git reset -q --hard HEAD; git clean -fdq
done
exit $miss
