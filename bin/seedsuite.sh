#!/bin/bash
# Self-test of the machinery: applies every kept seeded change to a SCRATCH worktree of /repo (never to /repo itself) and verifies
# that the check(s) named in its meta.json report a VIOLATION (exit 1). Usage: seedsuite.sh [name-glob]
VERIF_ROOT=${VERIF_ROOT:-$(cd "$(dirname "$0")/.." && pwd)}; export VERIF_ROOT
WT=$(mktemp -d /tmp/seedsuite-wt.XXXXXX)
git -C /repo worktree add -q --detach $WT HEAD || exit 1
export REPO_ROOT=$WT
export VERIF_EVIDENCE_DIR=$(mktemp -d /tmp/seedsuite-ev.XXXXXX)
trap 'rm -rf "$VERIF_ROOT/.work/mod-$(echo "$WT" | md5sum | cut -c1-10)"; git -C /repo worktree remove --force $WT; rm -rf "$VERIF_EVIDENCE_DIR" $WT' EXIT
miss=0
for d in $VERIF_ROOT/seeded/${1:-*}/; do
  name=$(basename $d)
  checks=$(python3 -c "import json;print(' '.join(json.load(open('$d/meta.json')).get('checks',[])))")
  (cd $WT && git reset -q --hard HEAD && git clean -fdq && (git apply $d/patch.diff 2>/dev/null || git apply -3 $d/patch.diff 2>/dev/null)) || { echo "SKIP $name: patch does not apply to the current tree"; continue; }
  for id in $checks; do
    out=$(timeout 3000 "$VERIF_ROOT/bin/check" $id quick 2>&1); rc=$?
    nv=$(echo "$out" | grep -c "^VIOLATION")
    if [ $rc -eq 1 ] && [ $nv -gt 0 ]; then echo "CAUGHT $name by $id ($nv violation lines): $(echo "$out" | grep signature | sort -u | head -2 | tr '\n' ' ' | cut -c1-200)"; else echo "MISSED $name by $id (rc=$rc) $(echo "$out" | tail -1 | cut -c1-160)"; miss=1; fi
  done
done
exit $miss
