#!/bin/bash
# usage: verify_seed.sh <worktree> <outdir> <pkgdir-relative-to-v2> [run-regex]
# Confirms independently, in the scratch worktree: patch applies to a clean tree, suite passes with it,
# demo fails with it and passes without it.
. /verif/bin/env.sh
WT=$1; OUT=$2; PKG=$3; RUN=${4:-.}
cd $WT || exit 1
git checkout -q -- . ; git clean -fdq
git apply --check $OUT/patch.diff || { echo "PATCH DOES NOT APPLY"; exit 1; }
cp $OUT/demo_test.go v2/$PKG/zz_demo_test.go
echo "== demo WITHOUT change"; (cd v2 && $GO test -vet=off -count=1 -run "$RUN" ./$PKG/ 2>&1 | tail -3)
rm v2/$PKG/zz_demo_test.go
git apply $OUT/patch.diff
echo "== build with -tags verif"; (cd v2 && $GO build -tags verif ./... && echo ok)
echo "== suite WITH change"; (cd v2 && $GO test -vet=off -count=1 ./... 2>&1 | tail -12)
cp $OUT/demo_test.go v2/$PKG/zz_demo_test.go
echo "== demo WITH change"; (cd v2 && $GO test -vet=off -count=1 -run "$RUN" ./$PKG/ 2>&1 | tail -6)
rm v2/$PKG/zz_demo_test.go
git checkout -q -- . ; git clean -fdq
