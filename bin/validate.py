#!/opt/veriftools/pyvenv/bin/python
import json, jsonschema, glob, sys
ok=True
m=json.load(open('/verif/MANIFEST.json')); s=json.load(open('/root/.vp/MANIFEST.schema.json'))
jsonschema.validate(m,s); print("manifest valid;", len(m['checks']), "checks,", len(m.get('not_applicable',[])), "not applicable")
es=json.load(open('/root/.vp/EVIDENCE.schema.json'))
for c in m['checks']:
    try:
        e=json.load(open(c['evidence_file'])); jsonschema.validate(e,es)
        cov=e['coverage']
        print(c['property_id'], "evidence valid: tier=%s evals=%s distinct=%s viol=%s wall=%.0fs"%(e['tier'],cov.get('evaluations'),cov.get('distinct_nontrivial'),e.get('violations'),e['wall_s']))
    except Exception as ex:
        ok=False; print(c['property_id'], "EVIDENCE PROBLEM:", str(ex)[:300])
sys.exit(0 if ok else 1)
