# Sourced by every /verif command. Pins an offline Go toolchain able to build /repo/v2 (go 1.24+).
export GOFLAGS=-mod=mod GOPROXY=off GOTOOLCHAIN=local GONOSUMDB='*' GONOSUMCHECK=1 GONOPROXY= GOWORK=off
unset GOSUMDB 2>/dev/null || true
export GOSUMDB=off
VERIF_ROOT=${VERIF_ROOT:-/verif}
REPO_ROOT=${REPO_ROOT:-/repo}
_tc=/root/go/pkg/mod/golang.org/toolchain@v0.0.1-go1.24.0.linux-amd64/bin/go
if [ -x "$_tc" ]; then GO="$_tc"
elif command -v go1.26 >/dev/null 2>&1; then GO=$(command -v go1.26)
elif [ -x /opt/veriftools/go1.26.8/bin/go ]; then GO=/opt/veriftools/go1.26.8/bin/go
else GO=go; fi
export GO VERIF_ROOT REPO_ROOT
export GOCACHE=${GOCACHE:-/root/.cache/go-build}
WORK=$VERIF_ROOT/.work
mkdir -p "$WORK/bin"
export WORK
